#!/usr/bin/env python3
"""Maintenance helper (run by hand): regenerate /verif/MANIFEST.json from the table below."""
import json

T = "runtime monitoring: "
CHECKS = {
 "C01": (T + "process/panic/stack monitor over seeded hostile, mutated, corpus, conformant and extreme histories on real 2 MiB threads (release + unoptimised overflow-checked builds; Miri and ASan shards in the thorough tier)",
         "Held on the executions produced: every history runs against the real library on a 2 MiB thread with the full consumer pipeline (re-export, common view, JSON); panics are caught and attributed, stack overflow/abort/signals are seen by the supervisor through the exit status and a progress file. Not a proof: reach is the generators' reach.",
         "Hangs are decided as bounded progress (generous watchdog => inconclusive, never a violation); memory exhaustion is capped by the counting allocator and delegated to C15; stack depth is decided on the release and unoptimised builds, never on ASan."),
 "C02": (T + "byte-accounting oracle over every result list of seeded hostile/mutated/corpus/conformant histories",
         "Every call's result list is walked left to right against the input bytes (wire length from the element's own header fields, those header fields compared with the bytes at that offset, error last with the exact suffix, silent stop only before a disallowed version).",
         "Exploration only; all allowed-set shapes and every cache state the histories reach."),
 "C03": (T + "field-by-field differential against an independent Cisco V5/V7 offset table and IANA protocol-name table",
         "Every decoded header/record field is compared with the big-endian value at the offset the Cisco layout assigns; record counts are swept (exhaustively in the thorough tier), all 256 protocol numbers appear in every run, shorter buffers must be errors.",
         "Offset tables and IANA keyword list are written in the harness; label spelling variants of the right IANA entry are tolerated, wrong entries are not (0, 1, 144 are listed known findings pinned by the repo's own snapshot)."),
 "C04": (T + "ground-truth differential: conformant V9 streams from an exporter model, decoded packets compared unit by unit with the abstract stream",
         "The abstract stream (which bytes were allotted to which field of which record under which template) is the reference; header, template records, record counts, every cell (value interpreted independently per data type and width) and padding are compared.",
         "Type assignment (field number -> data type) is the library's public, snapshot-pinned lookup; constructs the generator does not emit are listed in DESIGN.md section 11."),
 "C05": (T + "ground-truth differential: conformant IPFIX streams (fixed, zero-length, variable-length, enterprise fields) compared unit by unit with the abstract stream",
         "As C04 for RFC 7011 messages, including both variable-length prefix forms, enterprise numbers, options templates with scope counts, several sets per message; dedicated families observe the listed findings exactly against their defect models.",
         "As C04."),
 "C08": (T + "round-trip oracle: to_be_bytes vs the consumed input slice (complete packets, and every V5/V7 element returned for cut, hostile, mutated and corpus buffers), and struct -> bytes -> struct",
         "Byte identity of re-export for every generated V5/V7 packet (count sweep exhaustive in the thorough tier), for every V5/V7 element the library returns for buffers cut on/around record boundaries and for hostile histories, and field-wise identity for harness-built structures; a difference is attributed to a field through the offset table.",
         "Exploration only."),
 "C09": (T + "round-trip oracle on conformant V9 streams with a per-cell model of the listed lossy re-export classes",
         "Streams include consecutive redefinitions that collide under twenty cheap 32-bit fingerprints (birthday-searched twins). Re-export must equal the consumed bytes exactly, or equal the input with cells of a listed lossy class (duration, MAC, non-UTF-8 string, unassigned protocol) replaced by exactly what the listed model predicts; anything else is a violation attributed to a unit.",
         "Lossy classes are listed known findings (two are pinned by the repo's unit tests)."),
 "C10": (T + "round-trip oracle on conformant IPFIX streams with a per-cell model of the listed lossy re-export classes",
         "As C09 for IPFIX (additional listed classes: variable-length prefix, signed width).",
         "As C09."),
 "C06": (T + "cache-model monitor: the four public template maps of every parser are compared with a model cache after every call of seeded define/redefine/data/no-op histories; decoded data compared with the abstract stream; universal invariants (no eviction, isolation, data-only no-op) on hostile histories; id-space stress over thousands of live ids",
         "After every call: decoded data must follow the latest definition (ground-truth differential), the library's caches must equal the model (latest complete record per id per protocol per parser), no-op inputs (V5/V7, data only, garbage, truncated template packets, disallowed versions) must leave all four maps identical, other parser instances must be untouched, ids never disappear.",
         "Caches are public fields, so no source hook is needed; split-invariance of the same histories is decided by C11's monitor."),
 "C07": (T + "withheld-template histories with cache snapshots and ground-truth differential after the template arrives",
         "A data set (with records, or without a complete record) whose template was never sent / sent only for the other protocol / only to another parser instance / only in a rejected or truncated template record / received, used and then removed from the public cache (or filed under another key of it) by the application must not produce records: V9 packet => one error carrying the packet, IPFIX message => reported without that set; caches identical before/after; earlier packets of the buffer still reported; after the template arrives the identical bytes decode to the abstract records.",
         "What happens to IPFIX sets after the undecodable one is C05's listed finding and is not judged here."),
 "C11": (T + "metamorphic split monitor: every partition of a packet sequence into calls vs one packet per call (results, caches, common flowsets)",
         "For sequences of n <= 6 (thorough 8) packets all 2^(n-1) partitions are executed on fresh parsers and must give Debug-identical concatenated results, identical final caches and the same number of common flows as one-packet-per-call delivery.",
         "Only the last packet of a sequence may be refused (a refused packet legitimately stops a chained parse); a packet that is decoded and followed by a further error element when delivered alone stays in the sequence and the partitions judge. One sequence in eight runs under a restricted allowed set; one IPFIX message in six carries 1-3 stray octets behind its last set."),
 "C12": (T + "allowed-set differential: parser(S) vs parser(all versions) vs parser fed only the allowed prefix",
         "All 16 subsets of {5,7,9,10} (plus extra numbers) crossed with chained, hostile and mutated buffers and prior histories: results must be the all-allowed results up to the first disallowed version, caches must equal those of a parser that never saw the rest, allowed-but-unknown versions must end in an UnknownVersion error with the unparsed bytes; what the leading version word alone decides is stated without a second parser (not in S: nothing; in S but not decodable: exactly one UnknownVersion error); allowed_versions must be left as the caller assigned it.",
         "Element boundaries are taken from the accounting monitor over the all-allowed run."),
 "C14": (T + "truncation monitor: every proper prefix of generated valid packets, alone and after complete packets, fresh and warm caches",
         "Each cut must give the preceding packets unchanged plus exactly one error whose remaining bytes are the truncated packet; V5/V7/IPFIX cuts must leave the four caches identical, including states only an application can build (one id in both maps of a protocol after a kept copy of the maps was merged back in).",
         "V9 cuts on flowset boundaries are excluded as the property states; all cut points for packets up to 400 bytes (2 KiB for every 8th / in the thorough tier), structural boundaries and samples beyond."),
 "C13": (T + "projection oracle: as_netflow_common / parse_bytes_as_netflow_common_flowsets vs a projection computed from the abstract stream with an independent projected-field table",
         "For V5/V7/V9/IPFIX streams whose templates mix the ten projected fields (IPv4 or IPv6 variants) with others: version, timestamp, one flow per record in order, every field equal to the abstract value and None exactly when the record has no such field; errors convert to Err; the flattening helper equals the concatenation over the packets of the buffer.",
         "Projected fields are generated at their natural widths and at most once per template so that the projection is unambiguous."),
 "C15": (T + "counting global allocator around every parse_bytes call (work / single-request / output bounds on hostile histories, constant-free doubling tests on 49 size-parametrised families, cache-size independence, announced-count inputs) plus valgrind/callgrind instruction counts of single parse_bytes calls (doubling and cache-size independence of the CPU cost)",
         "Bytes requested, allocation count, peak, largest single request and result size (bytes released when the result is dropped) are deterministic per call; instruction counts of the measured call come from callgrind (counters zeroed on entry, dumped on exit). Sharp monitors: doubling pairs in allocation and in instructions (k vs 2k must stay linear for every repetition of the format), cache-size independence (same input on a fresh parser and on one holding thousands of unrelated templates) and the single-request bound (no allocation sized by a count/length field beyond what the input or result justifies); the absolute bounds use constants calibrated on the repaired tree.",
         "CPU cost is observed only along the doubling families, allocation on every call; calls whose caches hold zero-length fields are attributed to the listed amplification finding and judged against exactly that model's allowance. A missing valgrind makes the instruction monitor inconclusive (note), never a violation."),
 "C16": (T + "JSON oracle: serde_json output read back by an independent order-preserving reader and compared with a tree built independently from the decoded structure; text compared across repeats and parser instances",
         "Well-formedness (strict RFC 8259 reader), determinism (same result twice; two instances fed the same history), faithfulness (every header field, template definition and cell value incl. 128-bit integers digit by digit, non-finite floats as null, record keys in template order, padding absent).",
         "The expected tree restates the documented derive(Serialize) shape of the public result types; a deliberate change of the JSON shape would have to be mirrored there."),
 "C17": (T + "cross-build differential: build with --no-default-features (build failure = violation), same seeded streams in both builds, transcripts compared; feature-off build checked against the abstract stream where unknown fields occur",
         "Known-only streams must give identical decoded results, re-export bytes and common flows in both builds (hashes compared call by call); with the feature off, data governed by a template containing an unknown field must not be reported as records while everything else equals the abstract stream.",
         "'Unknown' = the library's own data-type lookup returns Unknown; IPFIX sets after an undecodable set are C05's listed finding and the affected stream is cut short (counted) rather than judged."),
}
PENDING = {
 "C06": "check not wired yet (in progress); the technique applies, see DESIGN.md",
 "C07": "check not wired yet (in progress); the technique applies, see DESIGN.md",
 "C11": "check not wired yet (in progress); the technique applies, see DESIGN.md",
 "C12": "check not wired yet (in progress); the technique applies, see DESIGN.md",
 "C13": "check not wired yet (in progress); the technique applies, see DESIGN.md",
 "C14": "check not wired yet (in progress); the technique applies, see DESIGN.md",
 "C15": "check not wired yet (in progress); the technique applies, see DESIGN.md",
 "C16": "check not wired yet (in progress); the technique applies, see DESIGN.md",
 "C17": "check not wired yet (in progress); the technique applies, see DESIGN.md",
}

def main():
    props = [json.loads(l) for l in open('/verif/properties.jsonl')]
    checks = []
    for p in props:
        i = p['id']
        if i in CHECKS:
            tech, text, note = CHECKS[i]
            checks.append(dict(property_id=i, quick_cmd="bin/check %s --tier quick" % i, thorough_cmd="bin/check %s --tier thorough" % i,
                               evidence_file="/verif/evidence/%s.json" % i, replay_cmd_template="bin/check --replay {path}", engine="nfverif",
                               level_claimed=dict(category="exploration", text=text, design_ref="DESIGN.md section 7, " + i),
                               level_note=note, technique=tech))
    m = dict(version=1, setup_cmd="bin/check --build",
             hooks=dict(guard="netflow_parser_verif", enable="none needed: every observation point is a public field or a returned value; checks build /repo's working tree through a cargo path dependency", baseline_off_cmd="cd /repo && cargo test --offline", source_commits=[], add_only=True),
             engines=[dict(name="nfverif", path="/verif/harness", serves_properties=sorted(CHECKS), kind_free_text="Rust harness (seeded generators with ground truth, online monitors, counting allocator) supervised by bin/check (python): builds, shards over 16 cores, supervises worker deaths, matches known findings, writes evidence")],
             checks=checks,
             notes="VERIF_SEED seeds every random choice; known findings are in known_findings.json (never written at run time); replays are written to /verif/replays/<ID>/.",
             not_applicable=[dict(property_id=k, reason=v) for k, v in sorted(PENDING.items()) if k not in CHECKS])
    json.dump(m, open('/verif/MANIFEST.json', 'w'), indent=1)
    print("checks:", len(checks), "not_applicable:", len(m['not_applicable']))

main()
