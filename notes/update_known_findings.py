#!/usr/bin/env python3
"""Maintenance helper (run by hand, never by a check): add 'known' entries to known_findings.json,
taking the witness history of each signature from a worker report given on the command line."""
import json, sys
DESC = {
 "C15|zero-length-fields|amplification|model=records-x-zero-length-fields": ("KF-C15-zero-length-amplification", "template fields of declared length 0 are materialised once per record without consuming input: result size is records x zero-length fields x per-cell cost, unbounded relative to the bytes received (200 zero-length fields x 2000 one-byte records: ~15,700 result bytes per received byte)", "src/variable_versions/v9.rs FieldParser::parse / get_total_size, src/variable_versions/ipfix.rs is_valid (one non-zero field suffices)", "zero-length fields are pinned as accepted by the unit test it_parses_0_length_fields_ipfix; rejecting or capping them changes that snapshot"),
 "C13|v9|protocol_number|unassigned|model=255": ("KF-C13-v9-protocol-number-unassigned", "V9 common flow: a PROTOCOL byte in 145..=254 is reported as protocol_number 255 (the decoded ProtocolTypes::Unknown carries no number)", "src/netflow_common.rs From<&V9> / src/protocol.rs From<ProtocolTypes> for u8", "same root as KF-C09-protocol-unassigned: needs a public enum change"),
 "C13|ipfix|protocol_type|n=0|got=Unknown": ("KF-C13-ipfix-protocol-name-0", "IPFIX common flow: protocolIdentifier 0 (IANA HOPOPT) is named Unknown (ProtocolTypes::from(u8) table)", "src/protocol.rs impl From<u8> for ProtocolTypes", "same root as KF-C03-protocol-0 (snapshot-pinned table)"),
 "C13|ipfix|protocol_type|n=1|got=Hopopt": ("KF-C13-ipfix-protocol-name-1", "IPFIX common flow: protocolIdentifier 1 (IANA ICMP) is named Hopopt (ProtocolTypes::from(u8) table)", "src/protocol.rs impl From<u8> for ProtocolTypes", "same root as KF-C03-protocol-1 (snapshot-pinned table)"),
 "C13|ipfix|protocol_type|n=144|got=Reserved": ("KF-C13-ipfix-protocol-name-144", "IPFIX common flow: protocolIdentifier 144 (IANA AGGFRAG) is named Reserved (ProtocolTypes::from(u8) table)", "src/protocol.rs impl From<u8> for ProtocolTypes", "same root as KF-C03-protocol-144 (snapshot-pinned table)"),
 "C06|ipfix|template|field_count-not-enforced|model=greedy-to-end-of-set": ("KF-C06-ipfix-field-count-not-enforced", "IPFIX template records are not delimited by their field_count: a set that ends inside a record, or that carries further records, is cached as one template whose field list runs to the end of the set", "src/variable_versions/ipfix.rs Template (fields parsed greedily; is_valid compares the field list with itself)", "same root as KF-C05-template-set-multi-record; delimiting by field_count changes what existing snapshots record"),
 "C04|v9|options-data|multi-record|model=first-record-only": ("KF-C04-options-data-multi-record", "V9 options data flowset with more than one record: only the first record is decoded, the others are reported as padding", "src/variable_versions/v9.rs OptionsData (result type holds one record)", "the public result type OptionsData has room for one record only; repairing it changes the public API and the snapshots"),
 "C05|ipfix|template-set|multi-record|model=greedy-merge": ("KF-C05-template-set-multi-record", "IPFIX template set carrying more than one template record is decoded as one template whose field list greedily swallows the following records (and only the first id is cached)", "src/variable_versions/ipfix.rs Template (fields parsed to end of set; FlowSetBody::Template holds one template)", "FlowSetBody::Template holds a single template; a repair changes the public result type"),
 "C05|ipfix|options-template-set|multi-record|model=first-only-rest-padding": ("KF-C05-options-template-set-multi-record", "IPFIX options-template set carrying more than one record: only the first is decoded and cached, the rest is reported as padding", "src/variable_versions/ipfix.rs OptionsTemplate / FlowSetBody::OptionsTemplate", "FlowSetBody::OptionsTemplate holds a single template; a repair changes the public result type"),
 "C05|ipfix|sets-after-undecodable-set|model=dropped": ("KF-C05-sets-after-undecodable-set", "IPFIX message: every set after a set that cannot be decoded (e.g. data for a template not yet received) is silently dropped", "src/variable_versions/ipfix.rs IPFix::parse many0(complete(FlowSet::parse))", "skipping an undecodable set needs a new result variant or a behaviour change pinned by snapshots; recorded rather than repaired"),
 "C05|ipfix|cell|signed|wide|model=narrowed-to-i32": ("KF-C05-signed-wide-narrowed", "IPFIX signed 8/16-byte values outside the i32 range are narrowed to i32 (DataNumber has no 64/128-bit signed variant)", "src/variable_versions/data_number.rs DataNumber::parse (8,true)/(16,true)", "needs a new public DataNumber variant"),
 "C09|v9|export|cell|duration": ("KF-C09-duration", "V9 re-export: Duration-typed fields (FIRST/LAST_SWITCHED, flowStart/EndMilliseconds) are written as 4-byte whole seconds whatever their unit and width were", "src/variable_versions/data_number.rs FieldValue::to_be_bytes Duration arm", "pinned by unit test it_tests_field_value_to_be_bytes; unit and width are not retained in FieldValue::Duration"),
 "C09|v9|export|cell|duration-overflow": ("KF-C09-duration-overflow", "V9 re-export fails (Err) when a Duration field holds more than u32::MAX seconds", "src/variable_versions/data_number.rs FieldValue::to_be_bytes Duration arm", "same root as KF-C09-duration"),
 "C09|v9|export|cell|mac": ("KF-C09-mac", "V9 re-export: MAC address fields are written as their 17-byte text form instead of the 6 received bytes", "src/variable_versions/data_number.rs FieldValue::to_be_bytes MacAddr arm", "pinned by unit test it_tests_field_value_to_be_bytes"),
 "C09|v9|export|cell|string-nonutf8": ("KF-C09-string-nonutf8", "V9 re-export: string fields that are not valid UTF-8 come back altered (decoded lossily, U+FFFD re-encoded)", "src/variable_versions/data_number.rs FieldDataType::String decode (from_utf8_lossy)", "FieldValue::String cannot hold non-UTF-8 bytes; changing the decoded type changes snapshots"),
 "C09|v9|export|cell|protocol-unassigned": ("KF-C09-protocol-unassigned", "V9 re-export: a PROTOCOL byte in 145..=254 (no enum variant) is written back as 255", "src/protocol.rs From<ProtocolTypes> for u8 (Unknown => 255)", "ProtocolTypes::Unknown carries no number; needs a public enum change"),
 "C10|ipfix|export|cell|duration": ("KF-C10-duration", "IPFIX re-export: Duration-typed fields are written as 4-byte whole seconds whatever their unit and width were", "src/variable_versions/data_number.rs FieldValue::to_be_bytes Duration arm", "pinned by unit test it_tests_field_value_to_be_bytes"),
 "C10|ipfix|export|cell|duration-overflow": ("KF-C10-duration-overflow", "IPFIX re-export fails (Err) when a Duration field holds more than u32::MAX seconds (e.g. 8-byte millisecond timestamps)", "src/variable_versions/data_number.rs FieldValue::to_be_bytes Duration arm", "same root as KF-C10-duration"),
 "C10|ipfix|export|cell|mac": ("KF-C10-mac", "IPFIX re-export: MAC address fields are written as their 17-byte text form", "src/variable_versions/data_number.rs FieldValue::to_be_bytes MacAddr arm", "pinned by unit test it_tests_field_value_to_be_bytes"),
 "C10|ipfix|export|cell|string-nonutf8": ("KF-C10-string-nonutf8", "IPFIX re-export: string fields that are not valid UTF-8 come back altered", "src/variable_versions/data_number.rs FieldDataType::String decode (from_utf8_lossy)", "FieldValue::String cannot hold non-UTF-8 bytes"),
 "C10|ipfix|export|cell|signed-width": ("KF-C10-signed-width", "IPFIX re-export: signed values received in 1, 2, 8 or 16 bytes are written back as 4 bytes", "src/variable_versions/data_number.rs DataNumber::parse signed arms / to_be_bytes I32", "width is not retained in DataNumber::I32"),
 "C10|ipfix|export|cell|varlen-prefix": ("KF-C10-varlen-prefix", "IPFIX re-export: variable-length fields are written without their 1- or 3-byte length prefix", "src/variable_versions/ipfix.rs parse_field_length (prefix consumed, not retained)", "the prefix form is not retained in the decoded value; needs a result-type change"),
}
def main():
    kf = json.load(open('/verif/known_findings.json'))
    have = {f['signature'] for f in kf['findings']}
    for path in sys.argv[1:]:
        rep = json.load(open(path))
        for f in rep['findings']:
            s = f['signature']
            if s in have or s not in DESC:
                if s not in have: print("no description for", s)
                continue
            i, what, site, why = DESC[s]
            r = f['replay']
            kf['findings'].append(dict(id=i, property=s.split('|')[0], status="known", signature=s, what_fails=what, call_site=site, why_not_fixed=why, witness=dict(parsers=r.get('parsers'), ops=r.get('ops'))))
            have.add(s)
            print("added", i)
    json.dump(kf, open('/verif/known_findings.json','w'), indent=1)
main()
