import struct
def v9hdr(count, up=1, secs=2, seq=3, src=4): return struct.pack(">HHIIII", 9, count, up, secs, seq, src)
def fs(id, body): return struct.pack(">HH", id, len(body)+4) + body
def fsl(id, length, body): return struct.pack(">HH", id, length) + body
def v9tpl(tid, fields): return struct.pack(">HH", tid, len(fields)) + b"".join(struct.pack(">HH", t, l) for t, l in fields)
def v9opt(tid, scopes, opts): return struct.pack(">HHH", tid, 4*len(scopes), 4*len(opts)) + b"".join(struct.pack(">HH", t, l) for t, l in scopes+opts)
def ipfix(sets, t=1, seq=2, dom=3, length=None):
    body = b"".join(sets)
    return struct.pack(">HHIII", 10, (16+len(body)) if length is None else length, t, seq, dom) + body
def ifld(t, l, ent=None):
    if ent is None: return struct.pack(">HH", t, l)
    return struct.pack(">HHI", t | 0x8000, l, ent)
def itpl(tid, flds): return struct.pack(">HH", tid, len(flds)) + b"".join(flds)
def iopt(tid, scope_n, flds): return struct.pack(">HHH", tid, len(flds), scope_n) + b"".join(flds)
def v5(count, recs=None):
    h = struct.pack(">HHIIIIBBH", 5, count, 1, 2, 3, 4, 5, 6, 7)
    return h + b"".join(recs if recs is not None else [bytes(range(48))]*count)
