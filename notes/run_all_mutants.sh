#!/bin/bash
# Re-runs every seeded change against the check of its own property (quick tier). One line each.
cd /verif
for d in seeded/*/; do
  n=$(basename $d); prop=${n%%-*}
  grep -q '"superseded"' $d/meta.json 2>/dev/null && { echo "$n: superseded by a repo fix (see meta.json)"; continue; }
  p=$d/patch.diff; [ -f $d/patch_rebased_on_current_repo.diff ] && p=$d/patch_rebased_on_current_repo.diff
  (cd /repo && git apply --check $PWD/../verif/$p 2>/dev/null) || { echo "$n: patch does not apply"; continue; }
  echo -n "$n: "; notes/run_mutant.sh /verif/$p $prop | head -1
done
