#!/bin/bash
# Re-runs every seeded change against the check of its own property (quick tier). One line each.
# usage: run_all_mutants.sh [first-id]   (resume: ids sorting before first-id are skipped)
cd /verif
FIRST=${1:-}
for d in seeded/*/; do
  n=$(basename $d); prop=${n%%-*}
  [ -n "$FIRST" ] && [[ "$n" < "$FIRST" ]] && continue
  grep -q '"superseded"' $d/meta.json 2>/dev/null && { echo "$n: superseded by a repo fix (see meta.json)"; continue; }
  p=$d/patch.diff; [ -f $d/patch_rebased_on_current_repo.diff ] && p=$d/patch_rebased_on_current_repo.diff
  (cd /repo && git apply --check $PWD/../verif/$p 2>/dev/null) || { echo "$n: patch does not apply"; continue; }
  echo -n "$n: "; notes/run_mutant.sh /verif/$p $prop | head -1
done
