#!/bin/bash
# usage: run_mutant.sh <patch.diff> <PROP> [<PROP>...]   applies the patch to /repo, runs the quick checks, undoes it
set -u
PATCH=$1; shift
cd /repo && git apply "$PATCH" || { echo "patch does not apply to /repo"; exit 2; }
cd /verif
for P in "$@"; do
  bin/check $P --tier quick > /tmp/mut.$P.out 2> /tmp/mut.$P.err; rc=$?
  echo "$P rc=$rc $(grep -c '^VIOLATION' /tmp/mut.$P.out) violation line(s); $(grep -h 'signature:' /tmp/mut.$P.err | sort | uniq -c | head -5 | tr '\n' ';')"
done
git -C /repo checkout -- .
git -C /repo status --short | head -3
