#!/bin/bash
# usage: confirm_mutant.sh <worktree> <demo test name>
# Confirms in the scratch worktree: without the patch the demo passes; with it the crate builds,
# the existing lib+doc tests pass and the demo fails.
set -u
WT=$1; DEMO=$2
cd "$WT" || exit 2
export CARGO_NET_OFFLINE=true
git checkout -q -- src
echo "== unchanged: demo must pass"; cargo test --offline --test "$DEMO" 2>&1 | grep -E "^test result" ; A=${PIPESTATUS[0]}
git apply patch.diff || { echo "patch does not apply"; exit 2; }
echo "== changed: lib tests must pass"; cargo test --offline --lib 2>&1 | grep -E "^test result"; B=${PIPESTATUS[0]}
echo "== changed: doc tests must pass"; cargo test --offline --doc 2>&1 | grep -E "^test result"; C=${PIPESTATUS[0]}
echo "== changed: demo must fail"; cargo test --offline --test "$DEMO" 2>&1 | grep -E "^test result"; D=${PIPESTATUS[0]}
echo "unchanged_demo_rc=$A changed_lib_rc=$B changed_doc_rc=$C changed_demo_rc=$D"
if [ $A -eq 0 ] && [ $B -eq 0 ] && [ $C -eq 0 ] && [ $D -ne 0 ]; then echo CONFIRMED; else echo NOT-CONFIRMED; fi
