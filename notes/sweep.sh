#!/bin/bash
# usage: sweep.sh <tier> <seed>...   runs all 17 checks at each seed; prints one line per (check, seed)
TIER=$1; shift
cd /verif
for S in "$@"; do
  for P in C01 C02 C03 C04 C05 C06 C07 C08 C09 C10 C11 C12 C13 C14 C15 C16 C17; do
    VERIF_SEED=$S bin/check $P --tier $TIER > /tmp/sweep.$P.$S.out 2> /tmp/sweep.$P.$S.err; rc=$?
    echo "seed=$S $P rc=$rc viol=$(grep -c '^VIOLATION' /tmp/sweep.$P.$S.out) inconcl=$(grep -c '^INCONCLUSIVE' /tmp/sweep.$P.$S.out) $(tail -1 /tmp/sweep.$P.$S.err | sed 's/.*: //')"
  done
done
