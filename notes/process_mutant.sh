#!/bin/bash
# usage: process_mutant.sh <worktree> <PROP> <seeded id> <demo test name> [extra props to run...]
# confirm in the scratch worktree, copy patch+demo to seeded/<id>/, run the quick check(s) against it
set -u
WT=$1; PROP=$2; ID=$3; DEMO=$4; shift 4
cd /verif
if [ "$PROP" = "C17" ]; then
  ( cd $WT && git checkout -q -- src && export CARGO_NET_OFFLINE=true
    echo "== unchanged"; cargo test --offline --no-default-features --test $DEMO 2>&1 | grep -E "^test result"; A=${PIPESTATUS[0]}
    git apply patch.diff || exit 2
    cargo test --offline --lib 2>&1 | grep -E "^test result"; B=${PIPESTATUS[0]}
    cargo test --offline --doc 2>&1 | grep -E "^test result"; C=${PIPESTATUS[0]}
    cargo build --offline --no-default-features 2>&1 | tail -1
    echo "== changed"; cargo test --offline --no-default-features --test $DEMO 2>&1 | grep -E "^test result"; D=${PIPESTATUS[0]}
    echo "unchanged_demo_rc=$A changed_lib_rc=$B changed_doc_rc=$C changed_demo_rc=$D"
    if [ $A -eq 0 ] && [ $B -eq 0 ] && [ $C -eq 0 ] && [ $D -ne 0 ]; then echo CONFIRMED; else echo NOT-CONFIRMED; fi
    git checkout -q -- src ) | tee /tmp/confirm.$ID.txt
else
  notes/confirm_mutant.sh $WT $DEMO | tee /tmp/confirm.$ID.txt
  ( cd $WT && cargo build --offline --no-default-features 2>&1 | tail -1; git checkout -q -- src )
fi
grep -q '^CONFIRMED' /tmp/confirm.$ID.txt || { echo "not confirmed: not kept"; exit 1; }
mkdir -p seeded/$ID
cp $WT/patch.diff seeded/$ID/patch.diff
cp $WT/tests/$DEMO.rs seeded/$ID/
[ -f $WT/report.md ] && cp $WT/report.md seeded/$ID/report.md
notes/run_mutant.sh /verif/seeded/$ID/patch.diff $PROP "$@"
