#!/bin/bash
# usage (from a `vp run --with-repo` snapshot, cwd = snapshot of /verif): notes/bg_sweep.sh <tier> <seed>...
# Runs all 17 checks from the snapshot against the snapshot of /repo's HEAD, so that edits to /repo and
# /verif made meanwhile (seeded changes being applied and undone) cannot disturb it. Not evidence: it
# only tells whether the committed checks stay silent at other seeds / in the thorough tier.
TIER=$1; shift
HERE=$(pwd)
if [ -n "${VP_RUN_REPO:-}" ]; then sed -i "s#path = \"/repo\"#path = \"$VP_RUN_REPO\"#" harness/Cargo.toml; fi
grep netflow_parser harness/Cargo.toml | head -1
for S in "$@"; do
  for P in ${PROPS:-C01 C02 C03 C04 C05 C06 C07 C08 C09 C10 C11 C12 C13 C14 C15 C16 C17}; do
    VERIF_SEED=$S $HERE/bin/check $P --tier $TIER > out.$P.$S.txt 2> err.$P.$S.txt; rc=$?
    echo "seed=$S $P rc=$rc viol=$(grep -c '^VIOLATION' out.$P.$S.txt) inconcl=$(grep -c '^INCONCLUSIVE' out.$P.$S.txt) $(tail -1 err.$P.$S.txt | sed 's/.*: //')"
    grep -h '^VIOLATION\|^INCONCLUSIVE' out.$P.$S.txt | head -5
    grep -h 'signature:' err.$P.$S.txt | sort | uniq -c | head -8
  done
done
