#!/bin/bash
# Re-runs the seeded changes named on the command line (e.g. C03-13 C04-13 ...) against the check of
# their own property (quick tier). One line each. Same conventions as run_all_mutants.sh.
cd /verif
for n in "$@"; do
  d=seeded/$n; prop=${n%%-*}
  [ -d $d ] || { echo "$n: no such seeded change"; continue; }
  grep -q '"superseded"' $d/meta.json 2>/dev/null && { echo "$n: superseded by a repo fix (see meta.json)"; continue; }
  p=$d/patch.diff; [ -f $d/patch_rebased_on_current_repo.diff ] && p=$d/patch_rebased_on_current_repo.diff
  (cd /repo && git apply --check /verif/$p 2>/dev/null) || { echo "$n: patch does not apply"; continue; }
  echo -n "$n: "; notes/run_mutant.sh /verif/$p $prop | head -1
done
