//! Independent reference tables: Cisco V5/V7 layouts, IANA protocol keywords, projected fields.

/// (name, offset, width) inside the 24-byte header
pub const V5_HEADER: &[(&str, usize, usize)] = &[
    ("version", 0, 2),
    ("count", 2, 2),
    ("sys_up_time", 4, 4),
    ("unix_secs", 8, 4),
    ("unix_nsecs", 12, 4),
    ("flow_sequence", 16, 4),
    ("engine_type", 20, 1),
    ("engine_id", 21, 1),
    ("sampling_interval", 22, 2),
];
pub const V5_RECORD: &[(&str, usize, usize)] = &[
    ("src_addr", 0, 4),
    ("dst_addr", 4, 4),
    ("next_hop", 8, 4),
    ("input", 12, 2),
    ("output", 14, 2),
    ("d_pkts", 16, 4),
    ("d_octets", 20, 4),
    ("first", 24, 4),
    ("last", 28, 4),
    ("src_port", 32, 2),
    ("dst_port", 34, 2),
    ("pad1", 36, 1),
    ("tcp_flags", 37, 1),
    ("protocol_number", 38, 1),
    ("tos", 39, 1),
    ("src_as", 40, 2),
    ("dst_as", 42, 2),
    ("src_mask", 44, 1),
    ("dst_mask", 45, 1),
    ("pad2", 46, 2),
];
pub const V7_HEADER: &[(&str, usize, usize)] = &[
    ("version", 0, 2),
    ("count", 2, 2),
    ("sys_up_time", 4, 4),
    ("unix_secs", 8, 4),
    ("unix_nsecs", 12, 4),
    ("flow_sequence", 16, 4),
    ("reserved", 20, 4),
];
pub const V7_RECORD: &[(&str, usize, usize)] = &[
    ("src_addr", 0, 4),
    ("dst_addr", 4, 4),
    ("next_hop", 8, 4),
    ("input", 12, 2),
    ("output", 14, 2),
    ("d_pkts", 16, 4),
    ("d_octets", 20, 4),
    ("first", 24, 4),
    ("last", 28, 4),
    ("src_port", 32, 2),
    ("dst_port", 34, 2),
    ("flags_fields_valid", 36, 1),
    ("tcp_flags", 37, 1),
    ("protocol_number", 38, 1),
    ("tos", 39, 1),
    ("src_as", 40, 2),
    ("dst_as", 42, 2),
    ("src_mask", 44, 1),
    ("dst_mask", 45, 1),
    ("flags_fields_invalid", 46, 2),
    ("router_src", 48, 4),
];

pub fn be(b: &[u8]) -> u64 {
    b.iter().fold(0u64, |a, x| (a << 8) | *x as u64)
}

/// IANA "Assigned Internet Protocol Numbers" keywords 0..=144 (registry as of 2023).
const IANA: &[&str] = &[
    "HOPOPT", "ICMP", "IGMP", "GGP", "IPv4", "ST", "TCP", "CBT", "EGP", "IGP", "BBN-RCC-MON", "NVP-II",
    "PUP", "ARGUS", "EMCON", "XNET", "CHAOS", "UDP", "MUX", "DCN-MEAS", "HMP", "PRM", "XNS-IDP",
    "TRUNK-1", "TRUNK-2", "LEAF-1", "LEAF-2", "RDP", "IRTP", "ISO-TP4", "NETBLT", "MFE-NSP",
    "MERIT-INP", "DCCP", "3PC", "IDPR", "XTP", "DDP", "IDPR-CMTP", "TP++", "IL", "IPv6", "SDRP",
    "IPv6-Route", "IPv6-Frag", "IDRP", "RSVP", "GRE", "DSR", "BNA", "ESP", "AH", "I-NLSP", "SWIPE",
    "NARP", "MOBILE", "TLSP", "SKIP", "IPv6-ICMP", "IPv6-NoNxt", "IPv6-Opts",
    "any host internal protocol", "CFTP", "any local network", "SAT-EXPAK", "KRYPTOLAN", "RVD", "IPPC",
    "any distributed file system", "SAT-MON", "VISA", "IPCV", "CPNX", "CPHB", "WSN", "PVP",
    "BR-SAT-MON", "SUN-ND", "WB-MON", "WB-EXPAK", "ISO-IP", "VMTP", "SECURE-VMTP", "VINES", "IPTM",
    "NSFNET-IGP", "DGP", "TCF", "EIGRP", "OSPFIGP", "Sprite-RPC", "LARP", "MTP", "AX.25", "IPIP",
    "MICP", "SCC-SP", "ETHERIP", "ENCAP", "any private encryption scheme", "GMTP", "IFMP", "PNNI",
    "PIM", "ARIS", "SCPS", "QNX", "A/N", "IPComp", "SNP", "Compaq-Peer", "IPX-in-IP", "VRRP", "PGM",
    "any 0-hop protocol", "L2TP", "DDX", "IATP", "STP", "SRP", "UTI", "SMP", "SM", "PTP",
    "ISIS over IPv4", "FIRE", "CRTP", "CRUDP", "SSCOPMCE", "IPLT", "SPS", "PIPE", "SCTP", "FC",
    "RSVP-E2E-IGNORE", "Mobility Header", "UDPLite", "MPLS-in-IP", "manet", "HIP", "Shim6", "WESP",
    "ROHC", "Ethernet", "AGGFRAG",
];

fn norm(s: &str) -> String {
    s.chars()
        .filter_map(|c| {
            if c.is_ascii_alphanumeric() {
                Some(c.to_ascii_lowercase())
            } else if c == '+' {
                Some('p')
            } else {
                None
            }
        })
        .collect()
}

/// Is `debug_name` (the Debug form of the library's ProtocolTypes variant) an acceptable
/// spelling of the IANA name of protocol number `n`?
/// Numbers the enum has no variant for (145..=254) must be `Unknown`; 255 is `Reserved`
/// (or `Unknown`).
pub fn protocol_name_ok(n: u8, debug_name: &str) -> bool {
    let got = norm(debug_name);
    match n {
        0..=144 => {
            let want = norm(IANA[n as usize]);
            if got == want {
                return true;
            }
            // spelling tolerance for entries whose IANA keyword is not an identifier
            match n {
                10 => got == "bbcrccmon",              // BBN-RCC-MON, library spelling
                22 => got == "xnxidp",                 // XNS-IDP, library spelling
                34 => got == "threepc",                // 3PC
                61 => got == "anydistributedprotocol", // descriptive entry, free-form label
                84 => got == "ttp" || got == "ttpiptm",
                _ => false,
            }
        }
        255 => got == "reserved" || got == "unknown",
        _ => got == "unknown",
    }
}

pub fn iana_name(n: u8) -> &'static str {
    match n {
        0..=144 => IANA[n as usize],
        255 => "Reserved",
        _ => "Unassigned",
    }
}

#[cfg(test)]
mod t {
    #[test]
    fn table_len() {
        assert_eq!(super::IANA.len(), 145);
        assert_eq!(super::IANA[6], "TCP");
        assert_eq!(super::IANA[17], "UDP");
        assert_eq!(super::IANA[132], "SCTP");
        assert_eq!(super::IANA[89], "OSPFIGP");
    }
}

#[cfg(test)]
mod t2 {
    #[test]
    fn list_mismatches() {
        for n in 0..=255u8 {
            let name = format!("{:?}", netflow_parser::protocol::ProtocolTypes::from(n));
            if !super::protocol_name_ok(n, &name) {
                println!("MISMATCH {} {} lib={}", n, super::iana_name(n), name);
            }
        }
    }
}
