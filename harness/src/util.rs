//! small helpers: hex, fnv hash, panic capture

pub fn hex(b: &[u8]) -> String {
    let mut s = String::with_capacity(b.len() * 2);
    for x in b {
        s.push_str(&format!("{:02x}", x));
    }
    s
}

pub fn unhex(s: &str) -> Vec<u8> {
    let s: Vec<u8> = s.bytes().filter(|c| c.is_ascii_hexdigit()).collect();
    s.chunks(2)
        .filter(|c| c.len() == 2)
        .map(|c| u8::from_str_radix(std::str::from_utf8(c).unwrap(), 16).unwrap())
        .collect()
}

pub fn fnv(data: &[u8]) -> u64 {
    let mut h: u64 = 0xcbf29ce484222325;
    for b in data {
        h ^= *b as u64;
        h = h.wrapping_mul(0x100000001b3);
    }
    h
}

pub fn fnv_str(s: &str) -> u64 {
    fnv(s.as_bytes())
}

use std::sync::Mutex;
pub static LAST_PANIC: Mutex<Option<(String, String)>> = Mutex::new(None);

/// Install a panic hook that records (location file:line, message) instead of printing.
pub fn install_panic_hook() {
    std::panic::set_hook(Box::new(|info| {
        let loc = info.location().map(|l| format!("{}:{}", l.file(), l.line())).unwrap_or_default();
        let msg = if let Some(s) = info.payload().downcast_ref::<&str>() {
            s.to_string()
        } else if let Some(s) = info.payload().downcast_ref::<String>() {
            s.clone()
        } else {
            "panic".to_string()
        };
        if let Ok(mut g) = LAST_PANIC.lock() {
            *g = Some((loc, msg));
        }
    }));
}

pub fn take_panic() -> Option<(String, String)> {
    LAST_PANIC.lock().ok().and_then(|mut g| g.take())
}

/// Strip digits so that messages with embedded values share one class.
pub fn msg_class(m: &str) -> String {
    let mut out = String::new();
    let mut last_digit = false;
    for c in m.chars().take(80) {
        if c.is_ascii_digit() {
            if !last_digit {
                out.push('N');
            }
            last_digit = true;
        } else {
            out.push(c);
            last_digit = false;
        }
    }
    out
}
