//! Counting global allocator: the deciding observer for C15 and the resource cap for every worker.
//! All counters are process-global atomics; workers measure on one thread at a time.

use std::alloc::{GlobalAlloc, Layout, System};
use std::sync::atomic::{AtomicBool, AtomicUsize, Ordering::Relaxed};

pub struct Counting;

static ON: AtomicBool = AtomicBool::new(false);
static REQ: AtomicUsize = AtomicUsize::new(0); // bytes requested (alloc + realloc new size)
static CNT: AtomicUsize = AtomicUsize::new(0); // number of alloc/realloc calls
static LIVE: AtomicUsize = AtomicUsize::new(0); // live bytes (always tracked)
static PEAK: AtomicUsize = AtomicUsize::new(0); // peak live since reset
static MAXREQ: AtomicUsize = AtomicUsize::new(0); // largest single request since reset
static SPMIN: AtomicUsize = AtomicUsize::new(usize::MAX); // lowest stack address seen in the hook
static CAP: AtomicUsize = AtomicUsize::new(usize::MAX); // live-bytes cap -> exit(77)
static REQCAP: AtomicUsize = AtomicUsize::new(usize::MAX); // requested-bytes cap per measurement -> exit(77)

extern "C" {
    fn _exit(code: i32) -> !;
    fn write(fd: i32, buf: *const u8, n: usize) -> isize;
}

pub const RESOURCE_EXIT: i32 = 77;

#[inline(never)]
fn cap_hit(kind: &str) -> ! {
    let msg = b"NFVERIF-RESOURCE-CAP ";
    unsafe {
        write(2, msg.as_ptr(), msg.len());
        write(2, kind.as_ptr(), kind.len());
        write(2, b"\n".as_ptr(), 1);
        _exit(RESOURCE_EXIT)
    }
}

#[inline]
fn note(size: usize) {
    let live = LIVE.fetch_add(size, Relaxed) + size;
    if live > CAP.load(Relaxed) {
        cap_hit("live");
    }
    if ON.load(Relaxed) {
        let r = REQ.fetch_add(size, Relaxed) + size;
        CNT.fetch_add(1, Relaxed);
        if live > PEAK.load(Relaxed) {
            PEAK.store(live, Relaxed);
        }
        if size > MAXREQ.load(Relaxed) {
            MAXREQ.store(size, Relaxed);
        }
        let here = 0u8;
        let sp = &here as *const u8 as usize;
        if sp < SPMIN.load(Relaxed) {
            SPMIN.store(sp, Relaxed);
        }
        if r > REQCAP.load(Relaxed) {
            cap_hit("requested");
        }
    }
}

unsafe impl GlobalAlloc for Counting {
    unsafe fn alloc(&self, l: Layout) -> *mut u8 {
        note(l.size());
        System.alloc(l)
    }
    unsafe fn alloc_zeroed(&self, l: Layout) -> *mut u8 {
        note(l.size());
        System.alloc_zeroed(l)
    }
    unsafe fn dealloc(&self, p: *mut u8, l: Layout) {
        LIVE.fetch_sub(l.size(), Relaxed);
        System.dealloc(p, l)
    }
    unsafe fn realloc(&self, p: *mut u8, l: Layout, new: usize) -> *mut u8 {
        LIVE.fetch_sub(l.size(), Relaxed);
        note(new);
        System.realloc(p, l, new)
    }
}

#[derive(Clone, Copy, Debug, Default)]
pub struct Meas {
    pub requested: usize,
    pub count: usize,
    pub peak_delta: usize,
    pub live_delta: isize,
    pub max_single: usize,
    pub stack_used: usize,
}

pub struct Scope {
    live0: usize,
    sp0: usize,
}

pub fn set_caps(live: usize, requested: usize) {
    CAP.store(live, Relaxed);
    REQCAP.store(requested, Relaxed);
}

pub fn live() -> usize {
    LIVE.load(Relaxed)
}

/// Start measuring. Not re-entrant.
pub fn begin() -> Scope {
    let here = 0u8;
    let sp0 = &here as *const u8 as usize;
    let live0 = LIVE.load(Relaxed);
    REQ.store(0, Relaxed);
    CNT.store(0, Relaxed);
    PEAK.store(live0, Relaxed);
    MAXREQ.store(0, Relaxed);
    SPMIN.store(usize::MAX, Relaxed);
    ON.store(true, Relaxed);
    Scope { live0, sp0 }
}

pub fn end(s: Scope) -> Meas {
    ON.store(false, Relaxed);
    let live = LIVE.load(Relaxed);
    let spmin = SPMIN.load(Relaxed);
    Meas {
        requested: REQ.load(Relaxed),
        count: CNT.load(Relaxed),
        peak_delta: PEAK.load(Relaxed).saturating_sub(s.live0),
        live_delta: live as isize - s.live0 as isize,
        max_single: MAXREQ.load(Relaxed),
        stack_used: if spmin == usize::MAX { 0 } else { s.sp0.saturating_sub(spmin) },
    }
}
