//! Worker context: system under test wrapper (logs every parse_bytes call as a replayable op),
//! report accumulation, verdict records.

use crate::truth::Div;
use netflow_parser::{NetflowPacket, NetflowParser};
use serde_json::{json, Map, Value};
use std::collections::{BTreeMap, BTreeSet};

pub struct Sut {
    pub parsers: Vec<NetflowParser>,
    pub ops: Vec<(usize, Vec<u8>)>,
    /// template ids the application removed from a public cache map: (number of ops before it,
    /// parser, map name, id) - replayed in order with the parse_bytes calls
    pub evictions: Vec<(usize, usize, &'static str, u16)>,
    /// cache entries the application moved to another key: (ops before it, parser, map, id, new key)
    pub rekeys: Vec<(usize, usize, &'static str, u16, u16)>,
    /// the application keeps a copy of a parser's four cache maps / merges the copy back in
    /// (entries whose key is absent from that map): (ops before it, parser, "snapshot" | "restore")
    pub persists: Vec<(usize, usize, &'static str)>,
    pub saved: Vec<Option<NetflowParser>>,
    /// allowed_versions reassigned by the application: (number of ops before it, parser, new set as
    /// sorted list; more than 64 members = all 65536)
    pub reconfigs: Vec<(usize, usize, Vec<u16>)>,
    /// per parser: the allowed set it had before its first reassignment
    pub initial_allowed: Vec<Option<Vec<u16>>>,
    pub calls: u64,
    pub bytes: u64,
}

impl Sut {
    pub fn new(n: usize) -> Sut {
        Sut { parsers: (0..n).map(|_| NetflowParser::default()).collect(), ops: vec![], evictions: vec![], rekeys: vec![], persists: vec![], saved: vec![], reconfigs: vec![], initial_allowed: vec![], calls: 0, bytes: 0 }
    }
    /// The application removes one id from one of the public cache maps (as a collector that
    /// expires templates does). Returns whether the id was present.
    /// The application assigns a new allowed set to the public field between two calls.
    pub fn set_allowed(&mut self, p: usize, a: &crate::props::common::Allowed) {
        if self.initial_allowed.len() < self.parsers.len() {
            self.initial_allowed.resize(self.parsers.len(), None);
        }
        if self.initial_allowed[p].is_none() {
            let mut v: Vec<u16> = self.parsers[p].allowed_versions.iter().cloned().collect();
            v.sort();
            self.initial_allowed[p] = Some(v);
        }
        a.apply(&mut self.parsers[p]);
        if let crate::props::common::Allowed::Default = a {
            self.parsers[p].allowed_versions = [5u16, 7, 9, 10].iter().cloned().collect();
        }
        let mut v: Vec<u16> = self.parsers[p].allowed_versions.iter().cloned().collect();
        v.sort();
        self.reconfigs.push((self.ops.len(), p, v));
    }
    /// The application keeps a copy of the public cache maps (a persisted template list).
    pub fn snapshot(&mut self, p: usize) {
        self.persists.push((self.ops.len(), p, "snapshot"));
        if self.saved.len() < self.parsers.len() {
            self.saved.resize_with(self.parsers.len(), || None);
        }
        self.saved[p] = Some(crate::observe::clone_parser(&self.parsers[p]));
    }
    /// ... and later merges it back into the maps: every saved entry whose key is absent from its map.
    pub fn restore(&mut self, p: usize) {
        self.persists.push((self.ops.len(), p, "restore"));
        if let Some(Some(s)) = self.saved.get(p) {
            restore_into(&mut self.parsers[p], s);
        }
    }
    /// The application files a cached template under another key of the public map.
    pub fn rekey(&mut self, p: usize, map: &'static str, id: u16, to: u16) -> bool {
        self.rekeys.push((self.ops.len(), p, map, id, to));
        rekey_in(&mut self.parsers[p], map, id, to)
    }
    pub fn evict(&mut self, p: usize, map: &'static str, id: u16) -> bool {
        self.evictions.push((self.ops.len(), p, map, id));
        evict_from(&mut self.parsers[p], map, id)
    }
    /// parse_bytes takes any slice: the library is handed a copy of `buf` that starts 0, 1, 2 or 3
    /// bytes off an aligned address, in rotation (a payload inside a captured frame is not aligned;
    /// nothing may depend on where the slice sits in memory).
    pub fn parse(&mut self, p: usize, buf: &[u8]) -> Vec<NetflowPacket> {
        self.ops.push((p, buf.to_vec()));
        self.calls += 1;
        self.bytes += buf.len() as u64;
        let off = (self.calls % 4) as usize;
        if off == 0 {
            return self.parsers[p].parse_bytes(buf);
        }
        // u64 backing store: 8-byte aligned base, so `off` is the misalignment
        let mut store: Vec<u64> = vec![0xAAAA_AAAA_AAAA_AAAAu64; (buf.len() + off) / 8 + 1];
        let bytes: &mut [u8] = unsafe { std::slice::from_raw_parts_mut(store.as_mut_ptr() as *mut u8, store.len() * 8) };
        bytes[off..off + buf.len()].copy_from_slice(buf);
        self.parsers[p].parse_bytes(&bytes[off..off + buf.len()])
    }
    pub fn replay_json(&self) -> Value {
        let mut ops: Vec<Value> = vec![];
        for (i, (p, b)) in self.ops.iter().enumerate() {
            for e in self.evictions.iter().filter(|e| e.0 == i) {
                ops.push(json!({"parser": e.1, "evict": {"map": e.2, "id": e.3}}));
            }
            for e in self.rekeys.iter().filter(|e| e.0 == i) {
                ops.push(json!({"parser": e.1, "rekey": {"map": e.2, "id": e.3, "to": e.4}}));
            }
            for e in self.persists.iter().filter(|e| e.0 == i) {
                ops.push(json!({"parser": e.1, "persist": e.2}));
            }
            for e in self.reconfigs.iter().filter(|e| e.0 == i) {
                ops.push(json!({"parser": e.1, "allowed": if e.2.len() > 64 { json!("all-65536") } else { json!(e.2) }}));
            }
            ops.push(json!({"parser": p, "hex": crate::util::hex(b)}));
        }
        for e in self.evictions.iter().filter(|e| e.0 >= self.ops.len()) {
            ops.push(json!({"parser": e.1, "evict": {"map": e.2, "id": e.3}}));
        }
        // the sets in force before the first reassignment (= at the first call)
        let initial = |i: usize, p: &NetflowParser| -> Value {
            let v: Vec<u16> = match self.initial_allowed.get(i).and_then(|x| x.clone()) {
                Some(v) => v,
                None => {
                    let mut v: Vec<u16> = p.allowed_versions.iter().cloned().collect();
                    v.sort();
                    v
                }
            };
            if v.len() > 64 {
                json!("all-65536")
            } else {
                json!(v)
            }
        };
        json!({
            "parsers": self.parsers.iter().enumerate().map(|(i, p)| initial(i, p)).collect::<Vec<_>>(),
            "ops": ops,
        })
    }
}

/// Move an entry of a public cache map to another key (the entry keeps its own template_id).
pub fn rekey_in(p: &mut NetflowParser, map: &str, id: u16, to: u16) -> bool {
    match map {
        "v9.templates" => p.v9_parser.templates.remove(&id).map(|t| p.v9_parser.templates.insert(to, t)).is_some(),
        "v9.options_templates" => p.v9_parser.options_templates.remove(&id).map(|t| p.v9_parser.options_templates.insert(to, t)).is_some(),
        "ipfix.templates" => p.ipfix_parser.templates.remove(&id).map(|t| p.ipfix_parser.templates.insert(to, t)).is_some(),
        "ipfix.options_templates" => p.ipfix_parser.options_templates.remove(&id).map(|t| p.ipfix_parser.options_templates.insert(to, t)).is_some(),
        _ => false,
    }
}

pub fn restore_into(p: &mut NetflowParser, saved: &NetflowParser) {
    for (k, v) in &saved.v9_parser.templates {
        p.v9_parser.templates.entry(*k).or_insert_with(|| v.clone());
    }
    for (k, v) in &saved.v9_parser.options_templates {
        p.v9_parser.options_templates.entry(*k).or_insert_with(|| v.clone());
    }
    for (k, v) in &saved.ipfix_parser.templates {
        p.ipfix_parser.templates.entry(*k).or_insert_with(|| v.clone());
    }
    for (k, v) in &saved.ipfix_parser.options_templates {
        p.ipfix_parser.options_templates.entry(*k).or_insert_with(|| v.clone());
    }
}

pub fn evict_from(p: &mut NetflowParser, map: &str, id: u16) -> bool {
    match map {
        "v9.templates" => p.v9_parser.templates.remove(&id).is_some(),
        "v9.options_templates" => p.v9_parser.options_templates.remove(&id).is_some(),
        "ipfix.templates" => p.ipfix_parser.templates.remove(&id).is_some(),
        "ipfix.options_templates" => p.ipfix_parser.options_templates.remove(&id).is_some(),
        _ => false,
    }
}

pub struct Violation {
    pub signature: String,
    pub unit: String,
    pub detail: String,
    pub replay: Value,
}

pub struct Report {
    pub prop: String,
    pub tier: String,
    pub seed: u64,
    pub shard: u64,
    pub nshards: u64,
    pub evaluations: u64,
    pub shapes: BTreeSet<u64>,
    pub trivial: u64,
    pub violations: Vec<Violation>,
    pub findings: BTreeMap<String, (u64, Value)>,
    pub counters: BTreeMap<String, u64>,
    pub maxima: BTreeMap<String, f64>,
    pub samples: Vec<Value>,
    pub inconclusive: u64,
    pub panics_foreign: u64,
    pub extra: Map<String, Value>,
    pub case: Value,
}

impl Report {
    pub fn new(prop: &str, tier: &str, seed: u64, shard: u64, nshards: u64) -> Report {
        Report {
            prop: prop.to_string(),
            tier: tier.to_string(),
            seed,
            shard,
            nshards,
            evaluations: 0,
            shapes: BTreeSet::new(),
            trivial: 0,
            violations: vec![],
            findings: BTreeMap::new(),
            counters: BTreeMap::new(),
            maxima: BTreeMap::new(),
            samples: vec![],
            inconclusive: 0,
            panics_foreign: 0,
            extra: Map::new(),
            case: Value::Null,
        }
    }
    pub fn count(&mut self, k: &str, n: u64) {
        *self.counters.entry(k.to_string()).or_insert(0) += n;
    }
    pub fn max(&mut self, k: &str, v: f64) {
        let e = self.maxima.entry(k.to_string()).or_insert(v);
        if v > *e {
            *e = v;
        }
    }
    pub fn shape(&mut self, s: &str) {
        if self.shapes.len() < 2_000_000 {
            self.shapes.insert(crate::util::fnv_str(s));
        }
    }
    pub fn sample(&mut self, v: Value) {
        if self.samples.len() < 4 {
            self.samples.push(v);
        }
    }
    fn with_case(&self, mut replay: Value) -> Value {
        if let Value::Object(m) = &mut replay {
            m.insert("property".into(), json!(self.prop));
            m.insert("case".into(), self.case.clone());
        }
        replay
    }
    pub fn violation(&mut self, signature: String, d: &Div, replay: Value) {
        if self.violations.len() < 50 {
            let replay = self.with_case(replay);
            self.violations.push(Violation { signature, unit: d.unit.clone(), detail: d.detail.clone(), replay });
        } else {
            self.count("violations_dropped", 1);
        }
    }
    pub fn finding(&mut self, signature: &str, replay: impl FnOnce() -> Value) {
        if let Some(e) = self.findings.get_mut(signature) {
            e.0 += 1;
            return;
        }
        let r = self.with_case(replay());
        self.findings.insert(signature.to_string(), (1, r));
    }
    pub fn to_json(&self) -> Value {
        json!({
            "property": self.prop,
            "tier": self.tier,
            "seed": self.seed,
            "shard": self.shard,
            "nshards": self.nshards,
            "evaluations": self.evaluations,
            "shapes": self.shapes.iter().collect::<Vec<_>>(),
            "trivial": self.trivial,
            "violations": self.violations.iter().map(|v| json!({"signature": v.signature, "unit": v.unit, "detail": v.detail, "replay": v.replay})).collect::<Vec<_>>(),
            "findings": self.findings.iter().map(|(k, (n, r))| json!({"signature": k, "count": n, "replay": r})).collect::<Vec<_>>(),
            "counters": self.counters,
            "maxima": self.maxima,
            "samples": self.samples,
            "inconclusive": self.inconclusive,
            "panics_foreign": self.panics_foreign,
            "extra": self.extra,
        })
    }
}

pub fn sig(prop: &str, d: &Div) -> String {
    // structural facts only: strip indices from the unit path
    let mut unit = String::new();
    let mut skip = false;
    for c in d.unit.chars() {
        if c == '[' {
            skip = true;
            continue;
        }
        if c == ']' {
            skip = false;
            continue;
        }
        if !skip {
            unit.push(c);
        }
    }
    format!("{}|{}|{}", prop, unit, d.class)
}
