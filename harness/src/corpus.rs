//! G-corp: committed seed corpus of stateful histories (derived once from a coverage-guided run
//! at design time; see DESIGN.md section 2). A history is a sequence of big-endian
//! u16-length-prefixed chunks, each chunk one parse_bytes call on the same parser.

static BIN: &[u8] = include_bytes!("../../corpus/stateful.bin");

pub fn split_history(h: &[u8]) -> Vec<Vec<u8>> {
    let mut out = vec![];
    let mut o = 0;
    while o + 2 <= h.len() {
        let n = u16::from_be_bytes([h[o], h[o + 1]]) as usize;
        o += 2;
        let e = (o + n).min(h.len());
        out.push(h[o..e].to_vec());
        o = e;
    }
    out
}

pub fn load() -> Vec<Vec<Vec<u8>>> {
    let mut out = vec![];
    let mut o = 0;
    while o + 4 <= BIN.len() {
        let n = u32::from_be_bytes([BIN[o], BIN[o + 1], BIN[o + 2], BIN[o + 3]]) as usize;
        o += 4;
        if o + n > BIN.len() {
            break;
        }
        out.push(split_history(&BIN[o..o + n]));
        o += n;
    }
    out
}
