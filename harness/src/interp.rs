//! Independent bytes -> value interpreter per (data type, width): what "the big-endian
//! interpretation, in the type the library assigns to that field" means. The *type assignment*
//! (field number -> data type) is taken from the library's public, snapshot-pinned lookup; the
//! *interpretation* of bytes is computed here without any library code.

use netflow_parser::variable_versions::data_number::{DataNumber, FieldDataType, FieldValue};
use netflow_parser::variable_versions::ipfix_lookup::IPFixField;
use netflow_parser::variable_versions::v9_lookup::V9Field;
use std::net::{Ipv4Addr, Ipv6Addr};
use std::time::Duration;

#[derive(Clone, Copy, Debug, PartialEq, Eq, Hash, PartialOrd, Ord)]
pub enum DT {
    Str,
    Signed,
    Unsigned,
    F64,
    DurS,
    DurMs,
    DurUs,
    DurNs,
    Ip4,
    Ip6,
    Mac,
    Bytes,
    Proto,
    Unknown,
}

impl DT {
    pub fn name(self) -> &'static str {
        match self {
            DT::Str => "string",
            DT::Signed => "signed",
            DT::Unsigned => "unsigned",
            DT::F64 => "float64",
            DT::DurS => "duration-s",
            DT::DurMs => "duration-ms",
            DT::DurUs => "duration-us",
            DT::DurNs => "duration-ns",
            DT::Ip4 => "ipv4",
            DT::Ip6 => "ipv6",
            DT::Mac => "mac",
            DT::Bytes => "bytes",
            DT::Proto => "protocol",
            DT::Unknown => "unknown",
        }
    }
}

pub fn dt_of(f: FieldDataType) -> DT {
    match f {
        FieldDataType::String => DT::Str,
        FieldDataType::SignedDataNumber => DT::Signed,
        FieldDataType::UnsignedDataNumber => DT::Unsigned,
        FieldDataType::Float64 => DT::F64,
        FieldDataType::DurationSeconds => DT::DurS,
        FieldDataType::DurationMillis => DT::DurMs,
        FieldDataType::DurationMicros => DT::DurUs,
        FieldDataType::DurationNanos => DT::DurNs,
        FieldDataType::Ip4Addr => DT::Ip4,
        FieldDataType::Ip6Addr => DT::Ip6,
        FieldDataType::MacAddr => DT::Mac,
        FieldDataType::Vec => DT::Bytes,
        FieldDataType::ProtocolType => DT::Proto,
        FieldDataType::Unknown => DT::Unknown,
        // a data type added by a later version of the library: no interpreter here, no oracle
        #[allow(unreachable_patterns)]
        _ => DT::Unknown,
    }
}

pub fn v9_dt(type_num: u16) -> DT {
    dt_of(FieldDataType::from(V9Field::from(type_num)))
}
pub fn ipfix_dt(type_num: u16) -> DT {
    dt_of(FieldDataType::from(IPFixField::from(type_num)))
}

/// Widths (bytes) for which the library documents/supports an exact interpretation.
pub fn supported_widths(dt: DT) -> &'static [u16] {
    match dt {
        DT::Unsigned => &[1, 2, 3, 4, 8, 16],
        DT::Signed => &[1, 2, 3, 4],
        DT::F64 => &[8],
        DT::DurS => &[4, 4, 4, 1, 2, 3, 8],
        DT::DurMs => &[4, 8, 4, 8, 1, 2, 3],
        DT::DurUs | DT::DurNs => &[8, 8, 4],
        DT::Ip4 => &[4],
        DT::Ip6 => &[16],
        DT::Mac => &[6],
        DT::Proto => &[1],
        DT::Str | DT::Bytes | DT::Unknown => &[],
    }
}

pub enum Exp {
    /// exact expected value
    Val(FieldValue),
    /// a ProtocolType whose name must be the IANA name of this number
    ProtoName(u8),
    /// mathematically exact value not representable in the library's result type (listed
    /// narrowing finding); carries what the narrowing model predicts
    Narrowed(FieldValue),
    /// width outside what the library supports: no oracle
    Unsupported,
}

fn beu(b: &[u8]) -> u128 {
    b.iter().fold(0u128, |a, x| (a << 8) | *x as u128)
}
fn bei(b: &[u8]) -> i128 {
    let u = beu(b);
    let bits = b.len() * 8;
    if bits == 0 {
        return 0;
    }
    if bits >= 128 {
        return u as i128;
    }
    let sign = 1u128 << (bits - 1);
    if u & sign != 0 {
        (u as i128) - (1i128 << bits)
    } else {
        u as i128
    }
}

pub fn mac_text(b: &[u8]) -> String {
    b.iter().map(|x| format!("{:02X}", x)).collect::<Vec<_>>().join(":")
}

pub fn expect(dt: DT, b: &[u8]) -> Exp {
    let n = b.len();
    match dt {
        DT::Unsigned => Exp::Val(FieldValue::DataNumber(match n {
            1 => DataNumber::U8(b[0]),
            2 => DataNumber::U16(beu(b) as u16),
            3 => DataNumber::U24(beu(b) as u32),
            4 => DataNumber::U32(beu(b) as u32),
            8 => DataNumber::U64(beu(b) as u64),
            16 => DataNumber::U128(beu(b)),
            _ => return Exp::Unsupported,
        })),
        DT::Signed => {
            let v = bei(b);
            match n {
                3 => Exp::Val(FieldValue::DataNumber(DataNumber::I24(v as i32))),
                1 | 2 | 4 => Exp::Val(FieldValue::DataNumber(DataNumber::I32(v as i32))),
                8 | 16 => {
                    if v >= i32::MIN as i128 && v <= i32::MAX as i128 {
                        Exp::Val(FieldValue::DataNumber(DataNumber::I32(v as i32)))
                    } else {
                        Exp::Narrowed(FieldValue::DataNumber(DataNumber::I32(v as i32)))
                    }
                }
                _ => Exp::Unsupported,
            }
        }
        DT::F64 => {
            if n == 8 {
                Exp::Val(FieldValue::Float64(f64::from_bits(beu(b) as u64)))
            } else {
                Exp::Unsupported
            }
        }
        DT::DurS | DT::DurMs | DT::DurUs | DT::DurNs => {
            if !matches!(n, 1 | 2 | 3 | 4 | 8) {
                return Exp::Unsupported;
            }
            let v = beu(b) as u64;
            Exp::Val(FieldValue::Duration(match dt {
                DT::DurS => Duration::from_secs(v),
                DT::DurMs => Duration::from_millis(v),
                DT::DurUs => Duration::from_micros(v),
                _ => Duration::from_nanos(v),
            }))
        }
        DT::Ip4 => {
            if n == 4 {
                Exp::Val(FieldValue::Ip4Addr(Ipv4Addr::new(b[0], b[1], b[2], b[3])))
            } else {
                Exp::Unsupported
            }
        }
        DT::Ip6 => {
            if n == 16 {
                let mut a = [0u8; 16];
                a.copy_from_slice(b);
                Exp::Val(FieldValue::Ip6Addr(Ipv6Addr::from(a)))
            } else {
                Exp::Unsupported
            }
        }
        DT::Mac => {
            if n == 6 {
                Exp::Val(FieldValue::MacAddr(mac_text(b)))
            } else {
                Exp::Unsupported
            }
        }
        DT::Str => Exp::Val(FieldValue::String(String::from_utf8_lossy(b).to_string())),
        DT::Bytes | DT::Unknown => Exp::Val(FieldValue::Vec(b.to_vec())),
        DT::Proto => {
            if n == 1 {
                Exp::ProtoName(b[0])
            } else {
                Exp::Unsupported
            }
        }
    }
}

pub fn fv_eq(a: &FieldValue, b: &FieldValue) -> bool {
    match (a, b) {
        (FieldValue::Float64(x), FieldValue::Float64(y)) => x.to_bits() == y.to_bits(),
        _ => a == b,
    }
}

/// None = matches; Some(desc) = mismatch description; narrowed flag returned separately
pub enum Cmp {
    Ok,
    OkNarrowed,
    Skip,
    Bad(String),
}

pub fn compare(dt: DT, bytes: &[u8], got: &FieldValue) -> Cmp {
    match expect(dt, bytes) {
        Exp::Unsupported => Cmp::Skip,
        Exp::Val(v) => {
            if fv_eq(&v, got) {
                Cmp::Ok
            } else {
                Cmp::Bad(format!("want {:?} got {:?}", v, got))
            }
        }
        Exp::Narrowed(v) => {
            if fv_eq(&v, got) {
                Cmp::OkNarrowed
            } else {
                Cmp::Bad(format!("want (narrowed) {:?} got {:?}", v, got))
            }
        }
        Exp::ProtoName(n) => match got {
            FieldValue::ProtocolType(p) => {
                let name = format!("{:?}", p);
                if crate::tables::protocol_name_ok(n, &name) {
                    Cmp::Ok
                } else {
                    Cmp::Bad(format!("protocol {} named {}", n, name))
                }
            }
            other => Cmp::Bad(format!("protocol {} decoded as {:?}", n, other)),
        },
    }
}

/// Re-export model: the bytes `to_be_bytes` produces for a cell under the *listed* lossy-export
/// findings. Returns (class, modelled bytes or None if the model predicts an export error).
/// class None = the cell must round-trip exactly.
pub fn export_model(dt: DT, b: &[u8]) -> (Option<&'static str>, Option<Vec<u8>>) {
    let n = b.len();
    match dt {
        DT::DurS | DT::DurMs | DT::DurUs | DT::DurNs => {
            if !matches!(n, 1 | 2 | 3 | 4 | 8) {
                return (Some("unsupported-width"), None);
            }
            let v = beu(b) as u64;
            let secs = match dt {
                DT::DurS => v,
                DT::DurMs => v / 1000,
                DT::DurUs => v / 1_000_000,
                _ => v / 1_000_000_000,
            };
            if dt == DT::DurS && n == 4 {
                return (None, Some(b.to_vec()));
            }
            match u32::try_from(secs) {
                Ok(s) => (Some("duration"), Some(s.to_be_bytes().to_vec())),
                Err(_) => (Some("duration-overflow"), None),
            }
        }
        DT::Mac => (Some("mac"), Some(mac_text(b).into_bytes())),
        DT::Str => {
            let s = String::from_utf8_lossy(b);
            if s.as_bytes() == b {
                (None, Some(b.to_vec()))
            } else {
                (Some("string-nonutf8"), Some(s.as_bytes().to_vec()))
            }
        }
        DT::Proto => {
            if n == 1 && (145..=254).contains(&b[0]) {
                (Some("protocol-unassigned"), Some(vec![255]))
            } else {
                (None, Some(b.to_vec()))
            }
        }
        DT::Signed => match n {
            3 | 4 => (None, Some(b.to_vec())),
            _ => (Some("signed-width"), Some((bei(b) as i32).to_be_bytes().to_vec())),
        },
        _ => (None, Some(b.to_vec())),
    }
}
