//! Projection of library results and caches into neutral comparable form, byte accounting
//! (M-acct) and the consumer pipeline.

use crate::truth::{div, Div};
use netflow_parser::{NetflowPacket, NetflowParseError, NetflowParser};
use std::collections::{BTreeMap, HashSet};

pub fn kind(p: &NetflowPacket) -> &'static str {
    match p {
        NetflowPacket::V5(_) => "V5",
        NetflowPacket::V7(_) => "V7",
        NetflowPacket::V9(_) => "V9",
        NetflowPacket::IPFix(_) => "IPFix",
        NetflowPacket::Error(e) => match e.error {
            NetflowParseError::Incomplete(_) => "Err:Incomplete",
            NetflowParseError::Partial(_) => "Err:Partial",
            NetflowParseError::UnallowedVersion(_) => "Err:Unallowed",
            NetflowParseError::UnknownVersion(_) => "Err:UnknownVersion",
        },
    }
}

/// wire length implied by the element's own header fields
pub fn wire_len(p: &NetflowPacket) -> Option<usize> {
    match p {
        NetflowPacket::V5(v) => Some(24 + 48 * v.header.count as usize),
        NetflowPacket::V7(v) => Some(24 + 52 * v.header.count as usize),
        NetflowPacket::IPFix(v) => Some((v.header.length as usize).max(16)),
        NetflowPacket::V9(v) => Some(20 + v.flowsets.iter().map(|f| (f.header.length as usize).max(4)).sum::<usize>()),
        NetflowPacket::Error(_) => None,
    }
}

#[derive(Debug, Clone, PartialEq)]
pub enum Ending {
    Clean,
    Error,
    SilentStop(u16),
    Empty,
}

pub struct Acct {
    pub spans: Vec<(usize, usize)>, // per non-error element
    pub end_offset: usize,
    pub ending: Ending,
}

fn be16(b: &[u8], o: usize) -> u16 {
    u16::from_be_bytes([b[o], b[o + 1]])
}

/// M-acct: the result list is a left-to-right decomposition of the buffer.
pub fn account(buf: &[u8], res: &[NetflowPacket], allowed: &HashSet<u16>) -> Result<Acct, Div> {
    let mut off = 0usize;
    let mut spans = vec![];
    if buf.is_empty() {
        if !res.is_empty() {
            return Err(div("acct", "empty-input", format!("{} elements for an empty buffer", res.len())));
        }
        return Ok(Acct { spans, end_offset: 0, ending: Ending::Empty });
    }
    for (i, p) in res.iter().enumerate() {
        match p {
            NetflowPacket::Error(e) => {
                if i + 1 != res.len() {
                    return Err(div("acct", "error-not-last", format!("error element at {} of {}", i, res.len())));
                }
                if e.remaining != buf[off..] {
                    return Err(div("acct", "error-remaining", format!("error.remaining has {} bytes, unconsumed suffix has {} (offset {})", e.remaining.len(), buf.len() - off, off)));
                }
                // (The payloads inside the error value - PartialParse.remaining, UnknownVersion -
                // are not part of C02's statement; C12 checks the latter where it states it. Whether a
                // disallowed version may be *reported* at all is C12's business too.)
                return Ok(Acct { spans, end_offset: off, ending: Ending::Error });
            }
            _ => {
                let len = wire_len(p).unwrap();
                if off + len > buf.len() {
                    return Err(div("acct", "overrun", format!("element {} ({}) claims {} bytes at offset {} of {}", i, kind(p), len, off, buf.len())));
                }
                let b = &buf[off..off + len];
                let ok = match p {
                    NetflowPacket::V5(v) => be16(b, 0) == 5 && v.header.version == 5 && be16(b, 2) == v.header.count && v.flowsets.len() == v.header.count as usize,
                    NetflowPacket::V7(v) => be16(b, 0) == 7 && v.header.version == 7 && be16(b, 2) == v.header.count && v.flowsets.len() == v.header.count as usize,
                    NetflowPacket::IPFix(v) => be16(b, 0) == 10 && v.header.version == 10 && be16(b, 2) == v.header.length,
                    NetflowPacket::V9(v) => {
                        let mut ok = be16(b, 0) == 9 && v.header.version == 9 && be16(b, 2) == v.header.count && v.flowsets.len() <= v.header.count as usize;
                        let mut o = 20;
                        for f in &v.flowsets {
                            if o + 4 > b.len() || be16(b, o) != f.header.flowset_id || be16(b, o + 2) != f.header.length {
                                ok = false;
                                break;
                            }
                            o += (f.header.length as usize).max(4);
                        }
                        // the packet ends after `count` flowsets or at the end of the buffer
                        if ok && v.flowsets.len() < v.header.count as usize && off + len != buf.len() {
                            ok = false;
                        }
                        ok
                    }
                    NetflowPacket::Error(_) => unreachable!(),
                };
                if !ok {
                    return Err(div("acct", "header-mismatch", format!("element {} ({}) header fields are not the bytes at offset {}", i, kind(p), off)));
                }
                spans.push((off, off + len));
                off += len;
            }
        }
    }
    if off == buf.len() {
        return Ok(Acct { spans, end_offset: off, ending: Ending::Clean });
    }
    if buf.len() - off < 2 {
        return Err(div("acct", "dropped-tail", format!("{} trailing byte(s) at offset {} neither decoded nor reported", buf.len() - off, off)));
    }
    let v = be16(buf, off);
    if allowed.contains(&v) {
        return Err(div("acct", "silent-stop", format!("list ends at offset {} of {} but version {} is allowed", off, buf.len(), v)));
    }
    Ok(Acct { spans, end_offset: off, ending: Ending::SilentStop(v) })
}

#[derive(Clone, PartialEq, Debug, Default)]
pub struct Snap {
    pub v9_t: BTreeMap<u16, String>,
    pub v9_o: BTreeMap<u16, String>,
    pub ix_t: BTreeMap<u16, String>,
    pub ix_o: BTreeMap<u16, String>,
}

pub fn snap(p: &NetflowParser) -> Snap {
    Snap {
        v9_t: p.v9_parser.templates.iter().map(|(k, v)| (*k, format!("{:?}", v))).collect(),
        v9_o: p.v9_parser.options_templates.iter().map(|(k, v)| (*k, format!("{:?}", v))).collect(),
        ix_t: p.ipfix_parser.templates.iter().map(|(k, v)| (*k, format!("{:?}", v))).collect(),
        ix_o: p.ipfix_parser.options_templates.iter().map(|(k, v)| (*k, format!("{:?}", v))).collect(),
    }
}

impl Snap {
    pub fn total(&self) -> usize {
        self.v9_t.len() + self.v9_o.len() + self.ix_t.len() + self.ix_o.len()
    }
}

pub fn clone_parser(p: &NetflowParser) -> NetflowParser {
    let mut n = NetflowParser::default();
    n.allowed_versions = p.allowed_versions.clone();
    n.v9_parser.templates = p.v9_parser.templates.clone();
    n.v9_parser.options_templates = p.v9_parser.options_templates.clone();
    n.ipfix_parser.templates = p.ipfix_parser.templates.clone();
    n.ipfix_parser.options_templates = p.ipfix_parser.options_templates.clone();
    n
}

pub fn canon(res: &[NetflowPacket]) -> String {
    format!("{:?}", res)
}

#[derive(Default, Clone)]
pub struct PipeStats {
    pub exports_ok: u64,
    pub exports_err: u64,
    pub commons: u64,
    pub common_flows: u64,
    pub json_bytes: u64,
}

/// The consumer pipeline of C01: re-export, common view, JSON. Must not panic.
pub fn pipeline(res: &[NetflowPacket], ps: &mut PipeStats) {
    for p in res {
        match p {
            NetflowPacket::V5(v) => {
                let b = v.to_be_bytes();
                std::hint::black_box(&b);
                ps.exports_ok += 1;
            }
            NetflowPacket::V7(v) => {
                let b = v.to_be_bytes();
                std::hint::black_box(&b);
                ps.exports_ok += 1;
            }
            NetflowPacket::V9(v) => match v.to_be_bytes() {
                Ok(_) => ps.exports_ok += 1,
                Err(_) => ps.exports_err += 1,
            },
            NetflowPacket::IPFix(v) => match v.to_be_bytes() {
                Ok(_) => ps.exports_ok += 1,
                Err(_) => ps.exports_err += 1,
            },
            NetflowPacket::Error(_) => {}
        }
        if let Ok(c) = p.as_netflow_common() {
            ps.commons += 1;
            ps.common_flows += c.flowsets.len() as u64;
        }
        if let Ok(s) = serde_json::to_string(p) {
            ps.json_bytes += s.len() as u64;
        }
    }
}
