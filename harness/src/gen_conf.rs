//! G-conf: conformant export streams with ground truth. An exporter-side model keeps the
//! templates it has announced (this is also the *model cache* of C06) and emits abstract
//! packets; `ast::wire` encodes them.

use crate::ast::*;
use crate::interp::{ipfix_dt, supported_widths, v9_dt, DT};
use crate::rng::Rng;
use std::collections::BTreeMap;

#[derive(Clone, Debug)]
pub struct Cfg {
    pub unknown_types: bool,
    pub multi_opt_records: bool, // V9 options data with >1 record (listed finding D4)
    pub multi_tmpl_sets: bool,   // IPFIX template sets with >1 record (listed finding D6/D7)
    pub small_ids: bool,
    pub projected: bool,
    pub max_records: usize,
    pub max_fields: usize,
    pub zero_len: bool,
    pub varlen: bool,
    pub enterprise: bool,
    pub options: bool,
    pub count_is_flowsets: bool, // V9 header count = number of flowsets (self-delimiting form)
    pub signed_wide: bool,       // signed 8/16-byte values (narrowing finding D9)
    pub cross_kind: bool,        // reuse an id across template kinds (the later definition replaces the earlier)
    pub nonzero_padding: bool,
    pub odd_padding: bool, // padding that is legal to receive but not what alignment requires
    pub dual_family: bool, // projected templates may carry the IPv4 and the IPv6 address of one side
    pub low_ids: bool,     // template ids below 256, among them the values a version word has (metamorphic checks only)
    pub twins: bool,       // consecutive definitions of one id that collide under a cheap fingerprint (crate::twins)
}

impl Default for Cfg {
    fn default() -> Cfg {
        Cfg {
            unknown_types: true,
            multi_opt_records: false,
            multi_tmpl_sets: false,
            small_ids: false,
            projected: false,
            max_records: 12,
            max_fields: 12,
            zero_len: true,
            varlen: true,
            enterprise: true,
            options: true,
            count_is_flowsets: false,
            signed_wide: false,
            cross_kind: false,
            nonzero_padding: true,
            odd_padding: false,
            dual_family: false,
            low_ids: false,
            twins: false,
        }
    }
}

pub struct Pools {
    pub v9_known: Vec<u16>,
    pub v9_unknown: Vec<u16>,
    pub ipfix_known: Vec<u16>,
    pub ipfix_unknown: Vec<u16>,
}

impl Pools {
    pub fn new() -> Pools {
        let mut p = Pools { v9_known: vec![], v9_unknown: vec![], ipfix_known: vec![], ipfix_unknown: vec![] };
        for n in 1..=400u16 {
            if v9_dt(n) != DT::Unknown {
                p.v9_known.push(n);
            } else if n <= 110 || n > 282 {
                p.v9_unknown.push(n);
            }
        }
        p.v9_unknown.extend_from_slice(&[0, 1000, 32767, 32768, 40000, 65535]);
        for n in 1..=520u16 {
            if ipfix_dt(n) != DT::Unknown {
                p.ipfix_known.push(n);
            } else {
                p.ipfix_unknown.push(n);
            }
        }
        p.ipfix_unknown.extend_from_slice(&[0, 600, 1000, 20000, 32767]);
        p
    }
}

pub const V9_PROJECTED: &[u16] = &[8, 12, 27, 28, 7, 11, 4, 22, 21, 56, 80];
pub const IPFIX_PROJECTED: &[u16] = &[8, 12, 27, 28, 7, 11, 4, 22, 21, 56, 80];

#[derive(Clone, Default)]
pub struct Exporter {
    pub v9_t: BTreeMap<u16, V9Tmpl>,
    pub v9_o: BTreeMap<u16, V9OptTmpl>,
    pub ix_t: BTreeMap<u16, IpfixTmpl>,
    pub ix_o: BTreeMap<u16, IpfixOptTmpl>,
    pub seq: u32,
    /// the second definition of a fingerprint-twin pair: it is the next template flowset/set this exporter sends
    pub twin_v9: Option<V9Tmpl>,
    pub twin_ix: Option<IpfixTmpl>,
    pub twins_sent: u64,
}

fn pick_len(rng: &mut Rng, dt: DT, cfg: &Cfg) -> u16 {
    let w = supported_widths(dt);
    if !w.is_empty() {
        if dt == DT::Signed && cfg.signed_wide && rng.chance(1, 2) {
            return *rng.pick(&[8u16, 16]);
        }
        return *rng.pick(w);
    }
    // string / bytes / unknown
    match rng.below(10) {
        0 if cfg.zero_len => 0,
        1 => 1,
        2 => rng.range(32, 64) as u16,
        _ => rng.range(1, 16) as u16,
    }
}

pub fn gen_string(rng: &mut Rng, n: usize) -> Vec<u8> {
    match rng.below(8) {
        0 => {
            // valid multi-byte UTF-8, padded with ASCII to length n
            let mut v = vec![];
            let pieces: [&[u8]; 4] = ["é".as_bytes(), "ß".as_bytes(), "€".as_bytes(), "😀".as_bytes()];
            while v.len() < n {
                let p = pieces[rng.usize(4)];
                if v.len() + p.len() <= n {
                    v.extend_from_slice(p);
                } else {
                    v.push(b'a' + (rng.below(26) as u8));
                }
            }
            v
        }
        1 => rng.bytes(n), // usually invalid UTF-8
        2 => {
            let mut v: Vec<u8> = (0..n).map(|_| b'A' + rng.below(26) as u8).collect();
            // trailing NULs as exporters pad strings
            let k = rng.usize(n + 1);
            for x in v.iter_mut().skip(k) {
                *x = 0;
            }
            v
        }
        _ => (0..n).map(|_| 0x20 + rng.below(0x5f) as u8).collect(),
    }
}

/// Values that mean something to software that handles addresses, times and counters - the
/// special cases a parser (or a "normalisation" somebody adds to it) is likely to treat differently.
/// Uniform random bytes hit them with probability 2^-32 .. 2^-96.
fn semantic_value(rng: &mut Rng, dt: DT, n: usize) -> Option<Vec<u8>> {
    let v4 = |rng: &mut Rng| -> [u8; 4] {
        match rng.below(8) {
            0 => [0, 0, 0, 0],
            1 => [127, 0, 0, 1],
            2 => [255, 255, 255, 255],
            3 => [224, 0, 0, 1],
            4 => [10, 0, 0, 1],
            5 => [192, 0, 2, rng.u8()],
            6 => [169, 254, rng.u8(), rng.u8()],
            _ => [rng.u8(), rng.u8(), rng.u8(), rng.u8()],
        }
    };
    match (dt, n) {
        (DT::Ip6, 16) => {
            let mut a = [0u8; 16];
            match rng.below(12) {
                0 => {}                // ::
                1 => a[15] = 1,        // ::1
                2 | 3 => {
                    // IPv4-mapped ::ffff:a.b.c.d
                    a[10] = 0xff;
                    a[11] = 0xff;
                    a[12..].copy_from_slice(&v4(rng));
                }
                4 => a[12..].copy_from_slice(&v4(rng)), // IPv4-compatible ::a.b.c.d
                5 => {
                    // NAT64 64:ff9b::a.b.c.d
                    a[1] = 0x64;
                    a[2] = 0xff;
                    a[3] = 0x9b;
                    a[12..].copy_from_slice(&v4(rng));
                }
                6 => {
                    a[0] = 0xfe;
                    a[1] = 0x80;
                    a[15] = rng.u8();
                }
                7 => {
                    a[0] = 0xff;
                    a[1] = 0x02;
                    a[15] = 1;
                }
                8 => {
                    // 6to4 2002:a.b.c.d::
                    a[0] = 0x20;
                    a[1] = 0x02;
                    let x = v4(rng);
                    a[2..6].copy_from_slice(&x);
                }
                9 => {
                    a[0] = 0x20;
                    a[1] = 0x01;
                    a[2] = 0x0d;
                    a[3] = 0xb8;
                    a[15] = rng.u8();
                }
                10 => {
                    // ::ffff:0:a.b.c.d (SIIT) - one group off the mapped prefix
                    a[8] = 0xff;
                    a[9] = 0xff;
                    a[12..].copy_from_slice(&v4(rng));
                }
                _ => a = [0xff; 16],
            }
            Some(a.to_vec())
        }
        (DT::Ip4, 4) => Some(v4(rng).to_vec()),
        (DT::Mac, 6) => Some(match rng.below(6) {
            0 => vec![0; 6],
            1 => vec![0xff; 6],
            2 => vec![0x01, 0x00, 0x5e, 0, 0, 1],
            3 => vec![0x33, 0x33, 0, 0, 0, 1],
            4 => vec![0x02, 0, 0, 0, 0, rng.u8()],
            _ => vec![0x00, 0x1b, 0x21, rng.u8(), rng.u8(), rng.u8()],
        }),
        (DT::F64, 8) => {
            // values exactly representable in narrower formats, and neighbours that are not
            let x: f64 = match rng.below(14) {
                0 => 0.0,
                1 => 1.0,
                2 => -1.0,
                3 => 0.5,
                4 => 1.0 / 1024.0,
                5 => 16777216.0,
                6 => 16777217.0,
                7 => f32::MAX as f64,
                8 => f32::MIN_POSITIVE as f64,
                9 => 0.1,
                10 => (0.1f32) as f64,
                11 => rng.below(100000) as f64,
                12 => 4294967296.0,
                _ => -(rng.below(1000) as f64) / 8.0,
            };
            Some(x.to_be_bytes().to_vec())
        }
        (DT::DurS, _) | (DT::DurMs, _) | (DT::DurUs, _) | (DT::DurNs, _) if n > 0 && n <= 8 => {
            let x: u64 = match rng.below(8) {
                0 => 0,
                1 => 1,
                2 => 999,
                3 => 1000,
                4 => 1_000_000,
                5 => 86_400,
                6 => 1_700_000_000,
                _ => 1_700_000_000_000,
            };
            let b = x.to_be_bytes();
            if n < 8 && x >> (8 * n) != 0 {
                return None;
            }
            Some(b[8 - n..].to_vec())
        }
        (DT::Unsigned, _) | (DT::Signed, _) if n > 0 && n <= 16 => {
            // small numbers that are protocol numbers, well-known ports, masks, TCP flags
            let x: u64 = *rng.pick(&[1u64, 2, 6, 17, 22, 47, 50, 53, 58, 80, 132, 255, 256, 443, 1023, 1024, 8080, 32, 24, 128, 0x12, 0x3f]);
            if n < 8 && x >> (8 * n) != 0 {
                return None;
            }
            let mut v = vec![0u8; n];
            let b = x.to_be_bytes();
            let k = n.min(8);
            v[n - k..].copy_from_slice(&b[8 - k..]);
            Some(v)
        }
        _ => None,
    }
}

/// A value that fits the meaning of the (IANA / Cisco) element number, for records that look like
/// traffic: protocol 1/6/17 together with plausible ports, flag sets, masks, AS numbers ...
/// (numbers 1-30 mean the same in V9 and IPFIX). None = no opinion, use the generic generator.
pub fn realistic_value(rng: &mut Rng, type_num: u16, n: usize) -> Option<Vec<u8>> {
    if n == 0 || n > 8 {
        return None;
    }
    let x: u64 = match type_num {
        4 => *rng.pick(&[1u64, 6, 17, 47, 50, 58, 132]),
        7 | 11 => *rng.pick(&[0u64, 0, 22, 53, 80, 123, 443, 2048, 771, 1024, 8080, 65535]),
        6 => *rng.pick(&[0u64, 0x02, 0x12, 0x10, 0x18, 0x11, 0x04, 0x1b]),
        5 => *rng.pick(&[0u64, 0, 0xb8, 0x28]),
        8 | 12 | 15 | 18 => *rng.pick(&[0u64, 0x7f000001, 0x0a000001, 0xc0a80101, 0xc0000201, 0xe0000001, 0xffffffff]),
        9 | 13 => *rng.pick(&[0u64, 8, 16, 24, 32]),
        29 | 30 => *rng.pick(&[0u64, 32, 48, 64, 128]),
        16 | 17 => *rng.pick(&[0u64, 64512, 65535, 23456]),
        1 | 23 => 40 + rng.below(150000),
        2 | 24 => 1 + rng.below(100),
        10 | 14 => rng.below(64),
        21 | 22 => rng.below(1_000_000),
        32 => *rng.pick(&[0u64, 0x0800, 0x0000, 0x0303, 0x0b00]),
        _ => return None,
    };
    if n < 8 && x >> (8 * n) != 0 {
        return None;
    }
    Some(x.to_be_bytes()[8 - n..].to_vec())
}

pub fn gen_value(rng: &mut Rng, dt: DT, n: usize, cfg: &Cfg) -> Vec<u8> {
    if rng.chance(1, 4) {
        if let Some(v) = semantic_value(rng, dt, n) {
            return v;
        }
    }
    match dt {
        DT::Str => gen_string(rng, n),
        DT::Proto => {
            if n == 1 {
                // all 256 protocol numbers
                vec![rng.u8()]
            } else {
                rng.bytes(n)
            }
        }
        DT::F64 if n == 8 => match rng.below(8) {
            0 => f64::NAN.to_be_bytes().to_vec(),
            1 => f64::INFINITY.to_be_bytes().to_vec(),
            2 => f64::NEG_INFINITY.to_be_bytes().to_vec(),
            3 => (-0.0f64).to_be_bytes().to_vec(),
            4 => (rng.next() as f64 / 1e6).to_be_bytes().to_vec(),
            5 => f64::MIN_POSITIVE.to_be_bytes().to_vec(),
            _ => rng.bytes(8),
        },
        DT::Signed if n == 8 || n == 16 => {
            if cfg.signed_wide && rng.chance(1, 2) {
                rng.bbytes(n)
            } else {
                // value within i32 so that the narrowing is exact
                let v = rng.b32() as i32 as i128;
                v.to_be_bytes()[16 - n..].to_vec()
            }
        }
        _ => rng.bbytes(n),
    }
}

/// A redefinition that differs from the cached definition as little as possible (identical refresh,
/// two fields swapped, one type number replaced by another of the same data type, one width
/// re-drawn): what a "skip the cache update when nothing changed" shortcut has to get right.
fn near_identical_v9(rng: &mut Rng, old: &[(u16, u16)], pools: &Pools) -> Vec<(u16, u16)> {
    let mut f = old.to_vec();
    if f.is_empty() {
        return vec![(1, 4)];
    }
    match rng.below(5) {
        0 => {}
        1 if f.len() > 1 => {
            let i = rng.usize(f.len() - 1);
            f.swap(i, i + 1);
        }
        2 => {
            let i = rng.usize(f.len());
            let dt = v9_dt(f[i].0);
            let same: Vec<u16> = pools.v9_known.iter().cloned().filter(|t| v9_dt(*t) == dt && *t != f[i].0).collect();
            if !same.is_empty() {
                f[i].0 = *rng.pick(&same);
            }
        }
        3 => {
            let i = rng.usize(f.len());
            let w = supported_widths(v9_dt(f[i].0));
            if !w.is_empty() {
                f[i].1 = *rng.pick(w);
            } else {
                f[i].1 = 1 + (f[i].1 % 16);
            }
        }
        _ => {
            // one field more or one less
            if f.len() > 1 && rng.chance(1, 2) {
                f.pop();
            } else {
                f.push((1, 4));
            }
        }
    }
    f
}

fn near_identical_ipfix(rng: &mut Rng, old: &[IpfixSpec], pools: &Pools, cfg: &Cfg) -> Vec<IpfixSpec> {
    let mut f = old.to_vec();
    if f.is_empty() {
        return vec![IpfixSpec { type_num: 1, len: 4, enterprise: None }];
    }
    match rng.below(7) {
        0 => {}
        1 if f.len() > 1 => {
            let i = rng.usize(f.len() - 1);
            f.swap(i, i + 1);
        }
        2 | 3 if !cfg.enterprise => {}
        2 => {
            // only the enterprise-ness of one field flips (element id and length stay)
            let i = rng.usize(f.len());
            match f[i].enterprise {
                None => f[i].enterprise = Some(*rng.pick(&[29305u32, 9, 0, 1, 35632])),
                Some(_) => {
                    let dt = ipfix_dt(f[i].type_num);
                    let w = supported_widths(dt);
                    if dt != DT::Unknown && (w.is_empty() || w.contains(&f[i].len)) {
                        f[i].enterprise = None;
                    } else {
                        f[i].enterprise = Some(rng.b32());
                    }
                }
            }
        }
        3 => {
            // only an enterprise number changes
            if let Some(x) = f.iter_mut().find(|x| x.enterprise.is_some()) {
                x.enterprise = Some(x.enterprise.unwrap().wrapping_add(1));
            } else {
                let i = rng.usize(f.len());
                f[i].enterprise = Some(9);
            }
        }
        4 => {
            let i = rng.usize(f.len());
            if f[i].enterprise.is_none() {
                let dt = ipfix_dt(f[i].type_num);
                let same: Vec<u16> = pools.ipfix_known.iter().cloned().filter(|t| ipfix_dt(*t) == dt && *t != f[i].type_num).collect();
                if !same.is_empty() {
                    f[i].type_num = *rng.pick(&same);
                }
            } else {
                f[i].type_num = (f[i].type_num + 1) & 0x7fff;
            }
        }
        5 => {
            let i = rng.usize(f.len());
            if f[i].enterprise.is_none() {
                let w = supported_widths(ipfix_dt(f[i].type_num));
                if !w.is_empty() {
                    f[i].len = *rng.pick(w);
                } else if f[i].len != 65535 {
                    f[i].len = 1 + (f[i].len % 16);
                }
            } else if f[i].len != 65535 {
                f[i].len = 1 + (f[i].len % 16);
            }
        }
        _ => {
            if f.len() > 1 && rng.chance(1, 2) {
                f.pop();
            } else {
                f.push(IpfixSpec { type_num: 1, len: 4, enterprise: None });
            }
        }
    }
    // the library's validity rule: at least one field with a non-zero length
    if f.iter().all(|x| x.len == 0) {
        f[0].len = 4;
        f[0].type_num = 1;
        f[0].enterprise = None;
    }
    f
}

impl Exporter {
    pub fn new() -> Exporter {
        Exporter::default()
    }

    fn pick_id(&mut self, rng: &mut Rng, cfg: &Cfg, existing: &[u16]) -> u16 {
        if cfg.low_ids && rng.chance(1, 3) {
            return *rng.pick(&[5u16, 7, 9, 10, 2, 3, 255, 4]);
        }
        if cfg.small_ids {
            return 256 + rng.below(4) as u16;
        }
        if !existing.is_empty() && rng.chance(1, 3) {
            return *rng.pick(existing);
        }
        match rng.below(6) {
            0 => 256,
            1 => 65535,
            2 => rng.range(256, 300) as u16,
            _ => rng.range(256, 65535) as u16,
        }
    }

    fn v9_field(&self, rng: &mut Rng, cfg: &Cfg, pools: &Pools) -> (u16, u16) {
        let t = if cfg.projected && rng.chance(2, 3) {
            *rng.pick(V9_PROJECTED)
        } else if cfg.unknown_types && rng.chance(1, 8) {
            *rng.pick(&pools.v9_unknown)
        } else {
            *rng.pick(&pools.v9_known)
        };
        let dt = v9_dt(t);
        let mut l = pick_len(rng, dt, cfg);
        if cfg.projected && V9_PROJECTED.contains(&t) {
            // natural widths for the projected fields
            l = match t {
                7 | 11 => 2,
                21 | 22 => 4,
                _ => l,
            };
        }
        (t, l)
    }

    pub fn v9_new_template(&mut self, rng: &mut Rng, cfg: &Cfg, pools: &Pools) -> V9Tmpl {
        let existing: Vec<u16> = self.v9_t.keys().cloned().collect();
        let mut id = self.pick_id(rng, cfg, &existing);
        if !cfg.cross_kind {
            let mut guard = 0;
            while self.v9_o.contains_key(&id) && guard < 100 {
                id = if cfg.small_ids { 256 + ((id - 256 + 1) % 4) } else { id.wrapping_add(1).max(256) };
                guard += 1;
            }
            if self.v9_o.contains_key(&id) {
                // id space exhausted for this kind: redefine an existing template of this kind,
                // or leave the small id space
                id = self.v9_t.keys().next().cloned().unwrap_or(260);
            }
        }
        let nf_max = if rng.chance(1, 10) { cfg.max_fields.max(1) * 3 } else { cfg.max_fields.max(1) };
        let nf = 1 + rng.usize(nf_max);
        let mut fields: Vec<(u16, u16)> = (0..nf).map(|_| self.v9_field(rng, cfg, pools)).collect();
        if !cfg.projected {
            if let Some(old) = self.v9_t.get(&id) {
                if rng.chance(1, 3) {
                    fields = near_identical_v9(rng, &old.fields, pools);
                }
            }
        }
        if fields.iter().all(|f| f.1 == 0) {
            fields[0] = (1, 4);
        }
        if cfg.projected {
            // at most one of each projected field and never both address families, so that the
            // projection is unambiguous
            let mut seen = std::collections::BTreeSet::new();
            fields.retain(|f| {
                let key = match f.0 {
                    8 | 27 if !cfg.dual_family => 1000,
                    12 | 28 if !cfg.dual_family => 1001,
                    x => x,
                };
                !V9_PROJECTED.contains(&f.0) || seen.insert(key)
            });
            if fields.iter().all(|f| f.1 == 0) {
                fields.push((1, 4));
            }
        }
        let t = V9Tmpl { id, fields };
        self.v9_o.remove(&id);
        self.v9_t.insert(id, t.clone());
        t
    }

    pub fn v9_new_opt_template(&mut self, rng: &mut Rng, cfg: &Cfg, pools: &Pools) -> V9OptTmpl {
        let existing: Vec<u16> = self.v9_o.keys().cloned().collect();
        let mut id = self.pick_id(rng, cfg, &existing);
        if !cfg.cross_kind {
            let mut guard = 0;
            while self.v9_t.contains_key(&id) && guard < 100 {
                id = if cfg.small_ids { 256 + ((id - 256 + 1) % 4) } else { id.wrapping_add(1).max(256) };
                guard += 1;
            }
            if self.v9_t.contains_key(&id) {
                id = self.v9_o.keys().next().cloned().unwrap_or(261);
            }
        }
        let ns = 1 + rng.usize(3);
        let no = 1 + rng.usize(4);
        let scope: Vec<(u16, u16)> = (0..ns).map(|_| (1 + rng.below(5) as u16, 1 + rng.below(8) as u16)).collect();
        let opts: Vec<(u16, u16)> = (0..no)
            .map(|_| {
                let t = if rng.chance(1, 6) { *rng.pick(&pools.v9_unknown) } else { *rng.pick(&pools.v9_known) };
                (t, 1 + rng.below(8) as u16)
            })
            .collect();
        let (scope, opts) = match self.v9_o.get(&id) {
            Some(old) if rng.chance(1, 3) => {
                // a redefinition that differs from the cached one as little as possible
                let mut sc = old.scope.clone();
                let mut op = old.opts.clone();
                match rng.below(4) {
                    0 => {}
                    1 if sc.len() > 1 => {
                        // same specifiers, the scope / option split moves by one
                        let f = sc.pop().unwrap();
                        op.insert(0, (1 + (f.0 % 5), f.1));
                    }
                    2 => {
                        let i = rng.usize(op.len());
                        op[i].1 = 1 + (op[i].1 % 8);
                    }
                    _ => {
                        let i = rng.usize(sc.len());
                        sc[i].0 = 1 + (sc[i].0 % 5);
                    }
                }
                (sc, op)
            }
            _ => (scope, opts),
        };
        let t = V9OptTmpl { id, scope, opts };
        self.v9_t.remove(&id);
        self.v9_o.insert(id, t.clone());
        t
    }

    fn n_records(&self, rng: &mut Rng, cfg: &Cfg) -> usize {
        match rng.below(12) {
            0 => cfg.max_records * 4 + 1,
            1 => 1,
            _ => 1 + rng.usize(cfg.max_records.max(1)),
        }
    }

    fn padding(&self, rng: &mut Rng, cfg: &Cfg, max: usize) -> Vec<u8> {
        if max == 0 {
            return vec![];
        }
        // usually 0-3 bytes (alignment); one padding in six uses anything shorter than a record,
        // up to 11 bytes (legal to receive: leftover bytes shorter than a record are padding)
        let n = if max > 3 && rng.chance(1, 6) { 4 + rng.usize(max.min(11) - 3) } else { rng.usize(max.min(3) + 1) };
        if cfg.nonzero_padding && rng.chance(1, 4) {
            rng.bytes(n)
        } else {
            vec![0; n]
        }
    }

    pub fn v9_data(&self, rng: &mut Rng, cfg: &Cfg, t: &V9Tmpl) -> V9FlowSet {
        let rs = t.rec_size();
        // (only with header count = flowsets: with the RFC's record count such a flowset adds nothing
        // to the count, and this library walks at most `count` flowsets)
        if rs >= 2 && !cfg.projected && cfg.count_is_flowsets && rng.chance(1, 16) {
            // a data flowset that holds no complete record: a body shorter than one record is padding
            let k = 1 + rng.usize((rs - 1).min(3));
            return V9FlowSet::Data { tmpl: t.clone(), records: vec![], padding: rng.bytes(k) };
        }
        // keep one flowset well inside the 16-bit length field
        let n = self.n_records(rng, cfg).min((12000 / rs.max(1)).max(1));
        let mut records: Vec<Vec<Vec<u8>>> = Vec::with_capacity(n);
        for _ in 0..n {
            if !records.is_empty() && rng.chance(1, 10) {
                // the same flow record twice in a row is legal
                let prev = records[records.len() - 1].clone();
                records.push(prev);
            } else {
                let realistic = rng.chance(1, 6);
                records.push(
                    t.fields
                        .iter()
                        .map(|(ty, l)| {
                            if realistic && v9_dt(*ty) != DT::Unknown {
                                if let Some(v) = realistic_value(rng, *ty, *l as usize) {
                                    return v;
                                }
                            }
                            gen_value(rng, v9_dt(*ty), *l as usize, cfg)
                        })
                        .collect(),
                );
            }
        }
        let padding = self.padding(rng, cfg, rs.saturating_sub(1));
        V9FlowSet::Data { tmpl: t.clone(), records, padding }
    }

    pub fn v9_opt_data(&self, rng: &mut Rng, cfg: &Cfg, t: &V9OptTmpl) -> V9FlowSet {
        let n = if cfg.multi_opt_records && rng.chance(1, 2) { 2 + rng.usize(3) } else { 1 };
        let records = (0..n)
            .map(|_| {
                (
                    // a Template scope (type 5) names a template: one of the ids this exporter
                    // has announced, half the time
                    t.scope
                        .iter()
                        .map(|(ty, l)| {
                            if *ty == 5 && *l == 2 && !self.v9_t.is_empty() && rng.chance(1, 2) {
                                let ids: Vec<u16> = self.v9_t.keys().cloned().collect();
                                rng.pick(&ids).to_be_bytes().to_vec()
                            } else {
                                rng.bbytes(*l as usize)
                            }
                        })
                        .collect(),
                    // option values: typed half the time (NUL-padded names, real addresses, ...),
                    // boundary-biased octets otherwise
                    t.opts.iter().map(|(ty, l)| if *l > 0 && rng.chance(1, 2) { gen_value(rng, v9_dt(*ty), *l as usize, cfg) } else { rng.bbytes(*l as usize) }).collect(),
                )
            })
            .collect();
        let rs = t.rec_size();
        let padding = self.padding(rng, cfg, rs.saturating_sub(1));
        V9FlowSet::OptionsData { tmpl: t.clone(), records, padding }
    }

    fn v9_define(&mut self, t: &V9Tmpl) -> V9FlowSet {
        self.v9_o.remove(&t.id);
        self.v9_t.insert(t.id, t.clone());
        V9FlowSet::Template { templates: vec![t.clone()], padding: vec![] }
    }

    /// Two definitions of one id, equal in length and colliding under a cheap fingerprint, as
    /// consecutive template flowsets of this exporter (same packet or the next one), each followed
    /// by data in its own layout.
    fn v9_twin_flowsets(&mut self, rng: &mut Rng, cfg: &Cfg) -> Option<Vec<V9FlowSet>> {
        if !cfg.twins || cfg.projected {
            return None;
        }
        let mut fs = vec![];
        if let Some(b) = self.twin_v9.take() {
            if let Some(a) = self.v9_t.get(&b.id).cloned() {
                if rng.chance(1, 2) {
                    fs.push(self.v9_data(rng, cfg, &a));
                }
            }
            fs.push(self.v9_define(&b));
            fs.push(self.v9_data(rng, cfg, &b));
            self.twins_sent += 1;
            return Some(fs);
        }
        if !rng.chance(1, 3) {
            return None;
        }
        if crate::twins::v9().is_empty() {
            return None;
        }
        let t = rng.pick(crate::twins::v9());
        if !cfg.cross_kind && self.v9_o.contains_key(&t.id) {
            return None;
        }
        let (a, b) = if rng.chance(1, 2) { (&t.a, &t.b) } else { (&t.b, &t.a) };
        let (a, b) = (V9Tmpl { id: t.id, fields: a.clone() }, V9Tmpl { id: t.id, fields: b.clone() });
        fs.push(self.v9_define(&a));
        fs.push(self.v9_data(rng, cfg, &a));
        if rng.chance(1, 2) {
            fs.push(self.v9_define(&b));
            fs.push(self.v9_data(rng, cfg, &b));
            self.twins_sent += 1;
            if rng.chance(1, 3) {
                fs.push(self.v9_define(&a));
                fs.push(self.v9_data(rng, cfg, &a));
            }
        } else {
            self.twin_v9 = Some(b);
        }
        Some(fs)
    }

    pub fn v9_packet(&mut self, rng: &mut Rng, cfg: &Cfg, pools: &Pools) -> V9Pkt {
        if let Some(fs) = self.v9_twin_flowsets(rng, cfg) {
            return self.v9_wrap(rng, cfg, fs);
        }
        let nfs = 1 + rng.usize(5);
        let mut flowsets = vec![];
        for _ in 0..nfs {
            let have_t = !self.v9_t.is_empty();
            let have_o = !self.v9_o.is_empty();
            let k = rng.below(100);
            if (k < 25 || !have_t) && !(k >= 90 && have_o) {
                if cfg.options && k % 5 == 0 {
                    // one options-template flowset in 25 carries 21-40 records (with a small id space
                    // many of them redefine an id announced earlier in the same flowset)
                    let n = if rng.chance(1, 25) { 21 + rng.usize(20) } else { 1 + rng.usize(4) };
                    let templates: Vec<V9OptTmpl> = (0..n).map(|_| self.v9_new_opt_template(rng, cfg, pools)).collect();
                    // options template records are 6+4k bytes: pad the flowset to a 4-byte boundary
                    let len: usize = templates.iter().map(|t| t.wire().len()).sum();
                    let padding = if cfg.odd_padding && rng.chance(1, 3) {
                        // anything shorter than an options template record (6 bytes) is padding
                        let k = rng.usize(6);
                        if rng.chance(1, 2) { rng.bytes(k) } else { vec![0u8; k] }
                    } else {
                        vec![0u8; (4 - (len % 4)) % 4]
                    };
                    flowsets.push(V9FlowSet::OptionsTemplate { templates, padding });
                } else {
                    let n = if rng.chance(1, 25) { 21 + rng.usize(20) } else { 1 + rng.usize(3) };
                    let templates: Vec<V9Tmpl> = (0..n).map(|_| self.v9_new_template(rng, cfg, pools)).collect();
                    let padding = if cfg.odd_padding && rng.chance(1, 5) {
                        // anything shorter than a template record header (4 bytes) is padding
                        let k = 1 + rng.usize(3);
                        if rng.chance(1, 2) { rng.bytes(k) } else { vec![0u8; k] }
                    } else {
                        vec![]
                    };
                    flowsets.push(V9FlowSet::Template { templates, padding });
                }
            } else if k >= 85 && have_o && cfg.options {
                let ids: Vec<u16> = self.v9_o.keys().cloned().collect();
                let t = self.v9_o[rng.pick(&ids)].clone();
                flowsets.push(self.v9_opt_data(rng, cfg, &t));
            } else {
                let ids: Vec<u16> = self.v9_t.keys().cloned().collect();
                let t = self.v9_t[rng.pick(&ids)].clone();
                flowsets.push(self.v9_data(rng, cfg, &t));
            }
        }
        self.v9_wrap(rng, cfg, flowsets)
    }

    pub fn v9_wrap(&mut self, rng: &mut Rng, cfg: &Cfg, mut flowsets: Vec<V9FlowSet>) -> V9Pkt {
        // keep the datagram limit
        loop {
            let total: usize = 20 + flowsets.iter().map(|f| f.body().len() + 4).sum::<usize>();
            if total <= 65535 || flowsets.len() <= 1 {
                break;
            }
            flowsets.pop();
        }
        let count = if cfg.count_is_flowsets {
            flowsets.len() as u16
        } else {
            flowsets.iter().map(|f| f.rfc_records()).sum::<usize>().min(65535) as u16
        };
        self.seq = self.seq.wrapping_add(1);
        V9Pkt { count, sys_up_time: rng.b32(), unix_secs: rng.b32(), seq: if rng.chance(1, 4) { rng.b32() } else { self.seq }, source_id: rng.b32(), flowsets }
    }

    // ---------------------------------------------------------------- IPFIX

    fn ipfix_spec(&self, rng: &mut Rng, cfg: &Cfg, pools: &Pools) -> IpfixSpec {
        if cfg.enterprise && !cfg.projected && rng.chance(1, 8) {
            let len = if cfg.varlen && rng.chance(1, 3) {
                65535
            } else if cfg.zero_len && rng.chance(1, 10) {
                0
            } else {
                rng.range(1, 20) as u16
            };
            // private enterprise numbers that exist (29305 = the IPFIX "reverse" PEN of RFC 5103, whose
            // element ids are the IANA ones; Cisco, Juniper, Citrix, ntop, Fortinet, Palo Alto) next
            // to boundary values; element ids that collide with IANA ids next to arbitrary ones
            let pen = if rng.chance(1, 2) { *rng.pick(&[29305u32, 9, 2636, 6871, 35632, 12356, 25461, 0, 1, 0xffff_ffff, 0x8000_0000]) } else { rng.b32() };
            let ty = if rng.chance(1, 2) { *rng.pick(&pools.ipfix_known) } else { rng.u16() & 0x7fff };
            return IpfixSpec { type_num: ty, len, enterprise: Some(pen) };
        }
        let t = if cfg.projected && rng.chance(2, 3) {
            *rng.pick(IPFIX_PROJECTED)
        } else if cfg.unknown_types && rng.chance(1, 10) {
            *rng.pick(&pools.ipfix_unknown)
        } else {
            *rng.pick(&pools.ipfix_known)
        };
        let dt = ipfix_dt(t);
        let mut len = pick_len(rng, dt, cfg);
        if cfg.varlen && matches!(dt, DT::Str | DT::Unknown) && rng.chance(1, 3) {
            len = 65535;
        }
        if cfg.projected && IPFIX_PROJECTED.contains(&t) {
            len = match t {
                7 | 11 => 2,
                21 | 22 => 4,
                4 => 1,
                _ => len,
            };
        }
        IpfixSpec { type_num: t, len, enterprise: None }
    }

    fn ipfix_specs(&self, rng: &mut Rng, cfg: &Cfg, pools: &Pools) -> Vec<IpfixSpec> {
        let nf_max = if rng.chance(1, 10) { cfg.max_fields.max(1) * 3 } else { cfg.max_fields.max(1) };
        let nf = 1 + rng.usize(nf_max);
        let mut fields: Vec<IpfixSpec> = (0..nf).map(|_| self.ipfix_spec(rng, cfg, pools)).collect();
        if cfg.projected {
            let mut seen = std::collections::BTreeSet::new();
            fields.retain(|f| {
                let key = match f.type_num {
                    8 | 27 if !cfg.dual_family => 1000,
                    12 | 28 if !cfg.dual_family => 1001,
                    x => x,
                };
                f.enterprise.is_some() || !IPFIX_PROJECTED.contains(&f.type_num) || seen.insert(key)
            });
        }
        if fields.iter().all(|f| f.len == 0) {
            fields.push(IpfixSpec { type_num: 1, len: 4, enterprise: None });
        }
        fields
    }

    fn ix_free_id(&mut self, rng: &mut Rng, cfg: &Cfg, options: bool) -> u16 {
        let existing: Vec<u16> = if options { self.ix_o.keys().cloned().collect() } else { self.ix_t.keys().cloned().collect() };
        let mut id = self.pick_id(rng, cfg, &existing);
        if !cfg.cross_kind {
            let mut guard = 0;
            let clash = |s: &Exporter, id: u16| if options { s.ix_t.contains_key(&id) } else { s.ix_o.contains_key(&id) };
            while clash(self, id) && guard < 100 {
                id = if cfg.small_ids { 256 + ((id - 256 + 1) % 4) } else { id.wrapping_add(1).max(256) };
                guard += 1;
            }
            if clash(self, id) {
                id = existing.first().cloned().unwrap_or(if options { 261 } else { 260 });
            }
        }
        id
    }

    pub fn ipfix_new_template(&mut self, rng: &mut Rng, cfg: &Cfg, pools: &Pools) -> IpfixTmpl {
        let id = self.ix_free_id(rng, cfg, false);
        let mut fields = self.ipfix_specs(rng, cfg, pools);
        if !cfg.projected {
            if let Some(old) = self.ix_t.get(&id) {
                if rng.chance(1, 3) {
                    fields = near_identical_ipfix(rng, &old.fields, pools, cfg);
                }
            }
        }
        let t = IpfixTmpl { id, fields };
        self.ix_o.remove(&id);
        self.ix_t.insert(id, t.clone());
        t
    }
    pub fn ipfix_new_opt_template(&mut self, rng: &mut Rng, cfg: &Cfg, pools: &Pools) -> IpfixOptTmpl {
        let id = self.ix_free_id(rng, cfg, true);
        let mut fields = self.ipfix_specs(rng, cfg, pools);
        let mut scope_count = 1 + rng.usize(fields.len()) as u16;
        if !cfg.projected {
            if let Some(old) = self.ix_o.get(&id) {
                if rng.chance(1, 3) {
                    if rng.chance(1, 3) && old.fields.len() > 1 {
                        // same field list, only the scope count differs
                        fields = old.fields.clone();
                        scope_count = 1 + (old.scope_count % old.fields.len() as u16);
                    } else {
                        fields = near_identical_ipfix(rng, &old.fields, pools, cfg);
                        scope_count = old.scope_count.min(fields.len() as u16).max(1);
                    }
                }
            }
        }
        let t = IpfixOptTmpl { id, scope_count, fields };
        self.ix_t.remove(&id);
        self.ix_o.insert(id, t.clone());
        t
    }

    pub fn ipfix_cell(&self, rng: &mut Rng, cfg: &Cfg, s: &IpfixSpec) -> Cell {
        let dt = if s.enterprise.is_some() { DT::Bytes } else { ipfix_dt(s.type_num) };
        if s.len == 65535 {
            let l = match rng.below(16) {
                0 => 0,
                1 => 254,
                2 => 255,
                3 => 256,
                4 => rng.range(257, 700) as usize,
                _ => rng.range(0, 24) as usize,
            };
            let bytes = gen_value(rng, dt, l, cfg);
            Cell { bytes, varlen: true, long_prefix: l >= 255 || rng.chance(1, 8) }
        } else {
            Cell::fixed(gen_value(rng, dt, s.len as usize, cfg))
        }
    }

    pub fn ipfix_data(&self, rng: &mut Rng, cfg: &Cfg, id: u16, options: bool, fields: &[IpfixSpec]) -> IpfixSet {
        let n = self.n_records(rng, cfg);
        let mut records: Vec<Vec<Cell>> = vec![];
        let mut size = 0usize;
        for _ in 0..n {
            let realistic = rng.chance(1, 6);
            let r: Vec<Cell> = if !records.is_empty() && rng.chance(1, 10) {
                records[records.len() - 1].clone()
            } else {
                fields
                    .iter()
                    .map(|s| {
                        if realistic && s.enterprise.is_none() && s.len != 65535 && ipfix_dt(s.type_num) != DT::Unknown {
                            if let Some(v) = realistic_value(rng, s.type_num, s.len as usize) {
                                return Cell::fixed(v);
                            }
                        }
                        self.ipfix_cell(rng, cfg, s)
                    })
                    .collect()
            };
            size += r.iter().map(|c| c.wire().len()).sum::<usize>();
            records.push(r);
            if size > 12000 {
                break;
            }
        }
        let min: usize = fields.iter().map(|f| f.min_size()).sum();
        let padding = self.padding(rng, cfg, min.saturating_sub(1));
        IpfixSet::Data { id, options, fields: fields.to_vec(), records, padding }
    }

    fn ipfix_define(&mut self, t: &IpfixTmpl) -> IpfixSet {
        self.ix_o.remove(&t.id);
        self.ix_t.insert(t.id, t.clone());
        IpfixSet::Template { records: vec![t.clone()], padding: vec![] }
    }

    fn ipfix_twin_sets(&mut self, rng: &mut Rng, cfg: &Cfg) -> Option<Vec<IpfixSet>> {
        if !cfg.twins || cfg.projected {
            return None;
        }
        let mut s = vec![];
        if let Some(b) = self.twin_ix.take() {
            if let Some(a) = self.ix_t.get(&b.id).cloned() {
                if rng.chance(1, 2) {
                    s.push(self.ipfix_data(rng, cfg, a.id, false, &a.fields));
                }
            }
            s.push(self.ipfix_define(&b));
            s.push(self.ipfix_data(rng, cfg, b.id, false, &b.fields));
            self.twins_sent += 1;
            return Some(s);
        }
        if !rng.chance(1, 3) {
            return None;
        }
        if crate::twins::ipfix().is_empty() {
            return None;
        }
        let t = rng.pick(crate::twins::ipfix());
        if !cfg.cross_kind && self.ix_o.contains_key(&t.id) {
            return None;
        }
        let spec = |f: &Vec<(u16, u16)>| -> Vec<IpfixSpec> { f.iter().map(|x| IpfixSpec { type_num: x.0, len: x.1, enterprise: None }).collect() };
        let (a, b) = if rng.chance(1, 2) { (&t.a, &t.b) } else { (&t.b, &t.a) };
        let (a, b) = (IpfixTmpl { id: t.id, fields: spec(a) }, IpfixTmpl { id: t.id, fields: spec(b) });
        s.push(self.ipfix_define(&a));
        s.push(self.ipfix_data(rng, cfg, a.id, false, &a.fields));
        if rng.chance(1, 2) {
            s.push(self.ipfix_define(&b));
            s.push(self.ipfix_data(rng, cfg, b.id, false, &b.fields));
            self.twins_sent += 1;
            if rng.chance(1, 3) {
                s.push(self.ipfix_define(&a));
                s.push(self.ipfix_data(rng, cfg, a.id, false, &a.fields));
            }
        } else {
            self.twin_ix = Some(b);
        }
        Some(s)
    }

    pub fn ipfix_msg(&mut self, rng: &mut Rng, cfg: &Cfg, pools: &Pools) -> IpfixMsg {
        if let Some(s) = self.ipfix_twin_sets(rng, cfg) {
            return self.ipfix_wrap(rng, s);
        }
        let ns = 1 + rng.usize(5);
        let mut sets = vec![];
        for _ in 0..ns {
            let have_t = !self.ix_t.is_empty();
            let have_o = !self.ix_o.is_empty();
            let k = rng.below(100);
            if (k < 25 || !have_t) && !(k >= 90 && have_o) {
                if cfg.options && k % 5 == 0 {
                    let n = if cfg.multi_tmpl_sets { 1 + rng.usize(3) } else { 1 };
                    let records: Vec<IpfixOptTmpl> = (0..n).map(|_| self.ipfix_new_opt_template(rng, cfg, pools)).collect();
                    let len: usize = records.iter().map(|t| t.wire().len()).sum();
                    let padding = if cfg.odd_padding && rng.chance(1, 3) {
                        let k = rng.usize(6);
                        if rng.chance(1, 2) { rng.bytes(k) } else { vec![0u8; k] }
                    } else if rng.chance(1, 2) {
                        vec![0u8; (4 - (len % 4)) % 4]
                    } else {
                        vec![]
                    };
                    sets.push(IpfixSet::OptionsTemplate { records, padding });
                } else {
                    let n = if cfg.multi_tmpl_sets { 1 + rng.usize(3) } else { 1 };
                    let records: Vec<IpfixTmpl> = (0..n).map(|_| self.ipfix_new_template(rng, cfg, pools)).collect();
                    let padding = if rng.chance(1, 10) { vec![0u8; 1 + rng.usize(3)] } else { vec![] };
                    sets.push(IpfixSet::Template { records, padding });
                }
            } else if k >= 85 && have_o && cfg.options {
                let ids: Vec<u16> = self.ix_o.keys().cloned().collect();
                let t = self.ix_o[rng.pick(&ids)].clone();
                sets.push(self.ipfix_data(rng, cfg, t.id, true, &t.fields));
            } else {
                let ids: Vec<u16> = self.ix_t.keys().cloned().collect();
                let t = self.ix_t[rng.pick(&ids)].clone();
                sets.push(self.ipfix_data(rng, cfg, t.id, false, &t.fields));
            }
        }
        self.ipfix_wrap(rng, sets)
    }

    pub fn ipfix_wrap(&mut self, rng: &mut Rng, mut sets: Vec<IpfixSet>) -> IpfixMsg {
        loop {
            let total: usize = 16 + sets.iter().map(|f| f.body().len() + 4).sum::<usize>();
            if total <= 65535 || sets.len() <= 1 {
                break;
            }
            sets.pop();
        }
        self.seq = self.seq.wrapping_add(1);
        IpfixMsg { export_time: rng.b32(), seq: if rng.chance(1, 4) { rng.b32() } else { self.seq }, domain: rng.b32(), sets }
    }
}

// ---------------------------------------------------------------- V5 / V7

pub fn fixed_pkt(rng: &mut Rng, version: u16, n: usize) -> FixedPkt {
    let mut header = [0u8; 24];
    let hb = rng.bytes(24);
    header.copy_from_slice(&hb);
    // boundary-biased header fields
    for (off, w) in [(4usize, 4usize), (8, 4), (12, 4), (16, 4), (20, 2), (22, 2)] {
        if rng.chance(1, 3) {
            let b = rng.bbytes(w);
            header[off..off + w].copy_from_slice(&b);
        }
    }
    header[0..2].copy_from_slice(&version.to_be_bytes());
    header[2..4].copy_from_slice(&(n as u16).to_be_bytes());
    let rl = if version == 5 { 48 } else { 52 };
    let layout: &[(&str, usize, usize)] = if version == 5 { crate::tables::V5_RECORD } else { crate::tables::V7_RECORD };
    let mut records: Vec<Vec<u8>> = Vec::with_capacity(n);
    // one packet in thirty: every record is a run of (version-like word, small count) pairs - wherever
    // a mislocated header read lands inside the record area, it finds something that looks like one
    let confusable: Option<(u16, u16)> = if rng.chance(1, 30) { Some((*rng.pick(&[5u16, 7, 9, 10]), rng.below(3) as u16)) } else { None };
    for _ in 0..n {
        if let Some((v, c)) = confusable {
            let mut r = Vec::with_capacity(rl);
            while r.len() < rl {
                r.extend_from_slice(&v.to_be_bytes());
                r.extend_from_slice(&c.to_be_bytes());
            }
            records.push(r);
            continue;
        }
        // exporters repeat flow records; a constant-filled body is also legal
        if !records.is_empty() && rng.chance(1, 10) {
            let prev = records[records.len() - 1].clone();
            records.push(prev);
            continue;
        }
        if rng.chance(1, 40) {
            let b = *rng.pick(&[0u8, 0xff, 0x01]);
            records.push(vec![b; rl]);
            continue;
        }
        // the reverse direction of the previous flow, as bidirectional traffic exports it: endpoints,
        // interfaces and ports exchanged, same protocol, everything else its own (half the time the
        // AS numbers and prefix lengths are exchanged too)
        if !records.is_empty() && rng.chance(1, 10) {
            let prev = records[records.len() - 1].clone();
            let mut r = rng.bytes(rl);
            let at = |name: &str| layout.iter().find(|f| f.0 == name).map(|f| (f.1, f.2));
            let mut pairs = vec![("src_addr", "dst_addr"), ("input", "output"), ("src_port", "dst_port"), ("protocol_number", "protocol_number")];
            if rng.chance(1, 2) {
                pairs.push(("src_as", "dst_as"));
                pairs.push(("src_mask", "dst_mask"));
            }
            for (a, b) in pairs {
                if let (Some((oa, wa)), Some((ob, wb))) = (at(a), at(b)) {
                    if wa == wb {
                        r[oa..oa + wa].copy_from_slice(&prev[ob..ob + wb]);
                        r[ob..ob + wb].copy_from_slice(&prev[oa..oa + wa]);
                    }
                }
            }
            records.push(r);
            continue;
        }
        let mut r = rng.bytes(rl);
        for (_, off, w) in layout {
            if rng.chance(1, 4) {
                let b = rng.bbytes(*w);
                r[*off..*off + *w].copy_from_slice(&b);
            }
        }
        if rng.chance(1, 8) {
            // a 16-bit word that reads like the version field of a packet (or a small count), at a
            // random even offset: record contents must never be mistaken for framing
            let o = 2 * rng.usize(rl / 2);
            let v = *rng.pick(&[5u16, 7, 9, 10, 0, 1]);
            r[o..o + 2].copy_from_slice(&v.to_be_bytes());
            if rng.chance(1, 2) && o + 4 <= rl {
                r[o + 2..o + 4].copy_from_slice(&(rng.below(4) as u16).to_be_bytes());
            }
        }
        if rng.chance(1, 4) {
            // a record that looks like traffic: real protocol numbers, well-known or zero ports,
            // plausible flag sets, special addresses, zero "router" fields - the combinations a
            // compatibility shim or a normalisation would key on
            let mut set = |name: &str, v: u32| {
                if let Some((_, off, w)) = layout.iter().find(|f| f.0 == name) {
                    let b = v.to_be_bytes();
                    r[*off..*off + *w].copy_from_slice(&b[4 - *w..]);
                }
            };
            let proto = *rng.pick(&[1u32, 6, 17, 47, 50, 58, 132, 2, 89]);
            set("protocol_number", proto);
            let port = |rng: &mut Rng| *rng.pick(&[0u32, 0, 22, 53, 80, 123, 443, 2048, 771, 1024, 8080, 65535]);
            set("src_port", port(rng));
            set("dst_port", port(rng));
            set("tcp_flags", if proto == 6 { *rng.pick(&[0x02u32, 0x12, 0x10, 0x18, 0x11, 0x04, 0x1b]) } else { 0 });
            set("tos", *rng.pick(&[0u32, 0, 0xb8, 0x28]));
            let addr = |rng: &mut Rng| *rng.pick(&[0u32, 0x7f000001, 0x0a000001, 0xc0a80101, 0xc0000201, 0xe0000001, 0xffffffff, 0xa9fe0001]);
            set("src_addr", addr(rng));
            set("dst_addr", addr(rng));
            if rng.chance(1, 2) {
                for f in ["next_hop", "input", "output", "src_as", "dst_as", "src_mask", "dst_mask"] {
                    set(f, 0);
                }
            } else {
                set("src_mask", *rng.pick(&[0u32, 8, 16, 24, 32]));
                set("dst_mask", *rng.pick(&[0u32, 8, 16, 24, 32]));
                set("src_as", *rng.pick(&[0u32, 64512, 65535, 23456]));
                set("dst_as", *rng.pick(&[0u32, 64512, 65535, 23456]));
            }
            set("d_pkts", 1 + rng.below(100) as u32);
            set("d_octets", 40 + rng.below(150000) as u32);
            let first = rng.below(1_000_000) as u32;
            set("first", first);
            set("last", first + rng.below(60000) as u32);
            if rng.chance(1, 2) {
                set("pad1", 0);
                set("pad2", 0);
            }
        }
        records.push(r);
    }
    FixedPkt { version, header, records }
}

pub fn fixed_max(version: u16) -> usize {
    if version == 5 {
        (65535 - 24) / 48
    } else {
        (65535 - 24) / 52
    }
}
