//! Seeded PRNG (splitmix64 -> xoshiro256**) with boundary-biased choosers.
//! Every case is a pure function of (VERIF_SEED, shard, case index).

#[derive(Clone)]
pub struct Rng {
    s: [u64; 4],
}

fn splitmix(x: &mut u64) -> u64 {
    *x = x.wrapping_add(0x9E3779B97F4A7C15);
    let mut z = *x;
    z = (z ^ (z >> 30)).wrapping_mul(0xBF58476D1CE4E5B9);
    z = (z ^ (z >> 27)).wrapping_mul(0x94D049BB133111EB);
    z ^ (z >> 31)
}

impl Rng {
    pub fn new(seed: u64) -> Rng {
        let mut x = seed;
        Rng { s: [splitmix(&mut x), splitmix(&mut x), splitmix(&mut x), splitmix(&mut x)] }
    }
    /// Independent stream for (seed, a, b)
    pub fn derive(seed: u64, a: u64, b: u64) -> Rng {
        let mut x = seed ^ 0xA5A5_5A5A_DEAD_BEEF;
        let k1 = splitmix(&mut x) ^ a.wrapping_mul(0x9E3779B97F4A7C15);
        let mut y = k1;
        let k2 = splitmix(&mut y) ^ b.wrapping_mul(0xC2B2AE3D27D4EB4F);
        Rng::new(k2)
    }
    pub fn next(&mut self) -> u64 {
        let r = self.s[1].wrapping_mul(5).rotate_left(7).wrapping_mul(9);
        let t = self.s[1] << 17;
        self.s[2] ^= self.s[0];
        self.s[3] ^= self.s[1];
        self.s[1] ^= self.s[2];
        self.s[0] ^= self.s[3];
        self.s[2] ^= t;
        self.s[3] = self.s[3].rotate_left(45);
        r
    }
    pub fn below(&mut self, n: u64) -> u64 {
        if n == 0 {
            return 0;
        }
        self.next() % n
    }
    pub fn usize(&mut self, n: usize) -> usize {
        self.below(n as u64) as usize
    }
    /// inclusive range
    pub fn range(&mut self, lo: u64, hi: u64) -> u64 {
        if hi <= lo {
            return lo;
        }
        lo + self.below(hi - lo + 1)
    }
    pub fn chance(&mut self, num: u64, den: u64) -> bool {
        self.below(den) < num
    }
    pub fn pick<'a, T>(&mut self, xs: &'a [T]) -> &'a T {
        &xs[self.usize(xs.len())]
    }
    pub fn u8(&mut self) -> u8 {
        self.next() as u8
    }
    pub fn u16(&mut self) -> u16 {
        self.next() as u16
    }
    pub fn u32(&mut self) -> u32 {
        self.next() as u32
    }
    pub fn bytes(&mut self, n: usize) -> Vec<u8> {
        let mut v = Vec::with_capacity(n);
        while v.len() < n {
            let x = self.next().to_le_bytes();
            let k = (n - v.len()).min(8);
            v.extend_from_slice(&x[..k]);
        }
        v
    }
    /// boundary-biased u16
    pub fn b16(&mut self) -> u16 {
        match self.below(10) {
            0 => 0,
            1 => 1,
            2 => 0x7fff,
            3 => 0x8000,
            4 => 0xffff,
            5 => 0x00ff,
            6 => 0x0100,
            _ => self.u16(),
        }
    }
    /// boundary-biased u32
    pub fn b32(&mut self) -> u32 {
        match self.below(10) {
            0 => 0,
            1 => 1,
            2 => 0x7fff_ffff,
            3 => 0x8000_0000,
            4 => 0xffff_ffff,
            5 => 0x0000_ffff,
            6 => 0x0001_0000,
            _ => self.u32(),
        }
    }
    /// n bytes, boundary-biased as a big-endian integer
    pub fn bbytes(&mut self, n: usize) -> Vec<u8> {
        if n == 0 {
            return vec![];
        }
        match self.below(12) {
            0 => vec![0; n],
            1 => {
                let mut v = vec![0; n];
                v[n - 1] = 1;
                v
            }
            2 => vec![0xff; n],
            3 => {
                let mut v = vec![0xff; n];
                v[0] = 0x7f;
                v
            }
            4 => {
                let mut v = vec![0; n];
                v[0] = 0x80;
                v
            }
            5 => {
                // distinct ascending bytes: any transposition is visible
                let b = self.u8();
                (0..n).map(|i| b.wrapping_add(i as u8).wrapping_mul(7) | 1).collect()
            }
            _ => self.bytes(n),
        }
    }
    pub fn shuffle<T>(&mut self, xs: &mut [T]) {
        for i in (1..xs.len()).rev() {
            let j = self.usize(i + 1);
            xs.swap(i, j);
        }
    }
}
