//! independent JSON reader (placeholder, see C16)
