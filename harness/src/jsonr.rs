//! Independent, strict, order-preserving JSON reader (RFC 8259). Numbers are kept as their
//! source text so that 128-bit integers and float spellings can be compared exactly.

#[derive(Debug, Clone, PartialEq)]
pub enum J {
    Null,
    Bool(bool),
    Num(String),
    Str(String),
    Arr(Vec<J>),
    Obj(Vec<(String, J)>),
}

pub struct P<'a> {
    s: &'a [u8],
    i: usize,
    depth: usize,
}

pub fn parse(text: &str) -> Result<J, String> {
    let mut p = P { s: text.as_bytes(), i: 0, depth: 0 };
    p.ws();
    let v = p.value()?;
    p.ws();
    if p.i != p.s.len() {
        return Err(format!("trailing data at byte {}", p.i));
    }
    Ok(v)
}

impl<'a> P<'a> {
    fn ws(&mut self) {
        while self.i < self.s.len() && matches!(self.s[self.i], b' ' | b'\t' | b'\n' | b'\r') {
            self.i += 1;
        }
    }
    fn peek(&self) -> Option<u8> {
        self.s.get(self.i).cloned()
    }
    fn expect(&mut self, c: u8) -> Result<(), String> {
        if self.peek() == Some(c) {
            self.i += 1;
            Ok(())
        } else {
            Err(format!("expected '{}' at byte {}", c as char, self.i))
        }
    }
    fn lit(&mut self, w: &str, v: J) -> Result<J, String> {
        if self.s[self.i..].starts_with(w.as_bytes()) {
            self.i += w.len();
            Ok(v)
        } else {
            Err(format!("bad literal at byte {}", self.i))
        }
    }
    fn value(&mut self) -> Result<J, String> {
        self.depth += 1;
        if self.depth > 200 {
            return Err("nesting too deep".into());
        }
        let r = match self.peek() {
            None => Err("unexpected end".into()),
            Some(b'n') => self.lit("null", J::Null),
            Some(b't') => self.lit("true", J::Bool(true)),
            Some(b'f') => self.lit("false", J::Bool(false)),
            Some(b'"') => self.string().map(J::Str),
            Some(b'[') => {
                self.i += 1;
                let mut v = vec![];
                self.ws();
                if self.peek() == Some(b']') {
                    self.i += 1;
                } else {
                    loop {
                        self.ws();
                        v.push(self.value()?);
                        self.ws();
                        match self.peek() {
                            Some(b',') => self.i += 1,
                            Some(b']') => {
                                self.i += 1;
                                break;
                            }
                            _ => return Err(format!("expected , or ] at byte {}", self.i)),
                        }
                    }
                }
                Ok(J::Arr(v))
            }
            Some(b'{') => {
                self.i += 1;
                let mut v = vec![];
                self.ws();
                if self.peek() == Some(b'}') {
                    self.i += 1;
                } else {
                    loop {
                        self.ws();
                        let k = self.string()?;
                        self.ws();
                        self.expect(b':')?;
                        self.ws();
                        let x = self.value()?;
                        v.push((k, x));
                        self.ws();
                        match self.peek() {
                            Some(b',') => self.i += 1,
                            Some(b'}') => {
                                self.i += 1;
                                break;
                            }
                            _ => return Err(format!("expected , or }} at byte {}", self.i)),
                        }
                    }
                }
                Ok(J::Obj(v))
            }
            Some(c) if c == b'-' || c.is_ascii_digit() => self.number(),
            Some(c) => Err(format!("unexpected byte {:#x} at {}", c, self.i)),
        };
        self.depth -= 1;
        r
    }
    fn number(&mut self) -> Result<J, String> {
        let st = self.i;
        if self.peek() == Some(b'-') {
            self.i += 1;
        }
        match self.peek() {
            Some(b'0') => self.i += 1,
            Some(c) if c.is_ascii_digit() => {
                while self.peek().map(|c| c.is_ascii_digit()).unwrap_or(false) {
                    self.i += 1;
                }
            }
            _ => return Err(format!("bad number at byte {}", st)),
        }
        if self.peek() == Some(b'.') {
            self.i += 1;
            if !self.peek().map(|c| c.is_ascii_digit()).unwrap_or(false) {
                return Err(format!("bad fraction at byte {}", self.i));
            }
            while self.peek().map(|c| c.is_ascii_digit()).unwrap_or(false) {
                self.i += 1;
            }
        }
        if matches!(self.peek(), Some(b'e') | Some(b'E')) {
            self.i += 1;
            if matches!(self.peek(), Some(b'+') | Some(b'-')) {
                self.i += 1;
            }
            if !self.peek().map(|c| c.is_ascii_digit()).unwrap_or(false) {
                return Err(format!("bad exponent at byte {}", self.i));
            }
            while self.peek().map(|c| c.is_ascii_digit()).unwrap_or(false) {
                self.i += 1;
            }
        }
        Ok(J::Num(String::from_utf8_lossy(&self.s[st..self.i]).to_string()))
    }
    fn hex4(&mut self) -> Result<u32, String> {
        if self.i + 4 > self.s.len() {
            return Err("short \\u escape".into());
        }
        let t = std::str::from_utf8(&self.s[self.i..self.i + 4]).map_err(|_| "bad \\u escape".to_string())?;
        let v = u32::from_str_radix(t, 16).map_err(|_| "bad \\u escape".to_string())?;
        self.i += 4;
        Ok(v)
    }
    fn string(&mut self) -> Result<String, String> {
        self.expect(b'"')?;
        let mut out: Vec<u8> = vec![];
        loop {
            let c = self.peek().ok_or("unterminated string")?;
            self.i += 1;
            match c {
                b'"' => break,
                b'\\' => {
                    let e = self.peek().ok_or("unterminated escape")?;
                    self.i += 1;
                    match e {
                        b'"' => out.push(b'"'),
                        b'\\' => out.push(b'\\'),
                        b'/' => out.push(b'/'),
                        b'b' => out.push(8),
                        b'f' => out.push(12),
                        b'n' => out.push(b'\n'),
                        b'r' => out.push(b'\r'),
                        b't' => out.push(b'\t'),
                        b'u' => {
                            let mut cp = self.hex4()?;
                            if (0xD800..0xDC00).contains(&cp) {
                                if self.peek() == Some(b'\\') && self.s.get(self.i + 1) == Some(&b'u') {
                                    self.i += 2;
                                    let lo = self.hex4()?;
                                    if !(0xDC00..0xE000).contains(&lo) {
                                        return Err("bad low surrogate".into());
                                    }
                                    cp = 0x10000 + ((cp - 0xD800) << 10) + (lo - 0xDC00);
                                } else {
                                    return Err("lone high surrogate".into());
                                }
                            } else if (0xDC00..0xE000).contains(&cp) {
                                return Err("lone low surrogate".into());
                            }
                            let ch = char::from_u32(cp).ok_or("bad code point")?;
                            let mut b = [0u8; 4];
                            out.extend_from_slice(ch.encode_utf8(&mut b).as_bytes());
                        }
                        _ => return Err(format!("bad escape at byte {}", self.i)),
                    }
                }
                c if c < 0x20 => return Err(format!("raw control character in string at byte {}", self.i)),
                c => out.push(c),
            }
        }
        String::from_utf8(out).map_err(|_| "string is not UTF-8".to_string())
    }
}

/// first difference between two trees, as (path, got, want)
pub fn diff(got: &J, want: &J, path: &str) -> Option<(String, String, String)> {
    fn short(j: &J) -> String {
        let s = format!("{:?}", j);
        if s.len() > 120 {
            format!("{}...", &s[..120])
        } else {
            s
        }
    }
    match (got, want) {
        (J::Arr(a), J::Arr(b)) => {
            if a.len() != b.len() {
                return Some((path.to_string(), format!("array of {}", a.len()), format!("array of {}", b.len())));
            }
            for (i, (x, y)) in a.iter().zip(b.iter()).enumerate() {
                if let Some(d) = diff(x, y, &format!("{}[{}]", path, i)) {
                    return Some(d);
                }
            }
            None
        }
        (J::Obj(a), J::Obj(b)) => {
            let ka: Vec<&String> = a.iter().map(|x| &x.0).collect();
            let kb: Vec<&String> = b.iter().map(|x| &x.0).collect();
            if ka != kb {
                return Some((path.to_string(), format!("keys {:?}", ka), format!("keys {:?}", kb)));
            }
            for ((k, x), (_, y)) in a.iter().zip(b.iter()) {
                if let Some(d) = diff(x, y, &format!("{}.{}", path, k)) {
                    return Some(d);
                }
            }
            None
        }
        (J::Num(a), J::Num(b)) => {
            if a == b {
                return None;
            }
            // float spellings: equal iff they parse to the same bits - only where the decoded
            // structure holds a float (`want` is spelled as one); integers must match digit by digit
            let is_float = |s: &str| s.contains('.') || s.contains('e') || s.contains('E');
            if is_float(b) {
                if let (Ok(x), Ok(y)) = (a.parse::<f64>(), b.parse::<f64>()) {
                    if x.to_bits() == y.to_bits() {
                        return None;
                    }
                }
            }
            Some((path.to_string(), a.clone(), b.clone()))
        }
        (a, b) => {
            if a == b {
                None
            } else {
                Some((path.to_string(), short(a), short(b)))
            }
        }
    }
}
