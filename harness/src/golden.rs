//! Golden self-checks of the generators/encoders against real captures (filled in below).
pub fn selftest() -> usize {
    0
}
