//! Golden self-checks: hand-written abstract streams must encode to real captures taken from
//! /repo/src/tests.rs (scapy IPFIX examples, a V9 template capture) and the library must decode
//! those captures to what the abstract stream says. A wrong encoder is the main false-alarm risk.

use crate::ast::*;
use crate::truth::{check_ipfix, check_v9, Stats};
use crate::util::{hex, unhex};
use netflow_parser::{NetflowPacket, NetflowParser};

fn spec(t: u16, l: u16) -> IpfixSpec {
    IpfixSpec { type_num: t, len: l, enterprise: None }
}

fn ensure(n: &mut usize, what: &str, ok: bool) {
    if !ok {
        eprintln!("GOLDEN CHECK FAILED: {}", what);
        std::process::exit(3);
    }
    *n += 1;
}

pub fn selftest() -> usize {
    let mut n = 0usize;
    // --- IPFIX scapy example: template 307 with 23 fields, then one 76-byte record
    let tmpl_hex = "000a0074583de05700000ecf00000000000200640133001700080004000c0004000500010004000100070002000b000200200002000a0004001000040011000400120004000e000400010004000200040016000400150004000f000400090001000d000100060001003c00010098000800990008";
    let data_hex = "000a0060583de05900000ee400000000013300504601730132004701003d0000000000000000033b0000000200000003cc2a6e65000003560000052000000009b3f906eeb3fbaf3ccc2a6ebd1818000400000158b1b138ff00000158b1b3e14d";
    let fields: Vec<IpfixSpec> = [(8, 4), (12, 4), (5, 1), (4, 1), (7, 2), (11, 2), (32, 2), (10, 4), (16, 4), (17, 4), (18, 4), (14, 4), (1, 4), (2, 4), (22, 4), (21, 4), (15, 4), (9, 1), (13, 1), (6, 1), (60, 1), (152, 8), (153, 8)].iter().map(|(t, l)| spec(*t, *l)).collect();
    let t = IpfixMsg { export_time: 0x583de057, seq: 0x0ecf, domain: 0, sets: vec![IpfixSet::Template { records: vec![IpfixTmpl { id: 307, fields: fields.clone() }], padding: vec![] }] };
    ensure(&mut n, "IPFIX scapy template encodes to the capture", hex(&t.wire()) == tmpl_hex);
    let raw = unhex(data_hex);
    let mut off = 20;
    let rec: Vec<Cell> = fields
        .iter()
        .map(|f| {
            let c = Cell::fixed(raw[off..off + f.len as usize].to_vec());
            off += f.len as usize;
            c
        })
        .collect();
    let d = IpfixMsg { export_time: 0x583de059, seq: 0x0ee4, domain: 0, sets: vec![IpfixSet::Data { id: 307, options: false, fields: fields.clone(), records: vec![rec], padding: vec![] }] };
    ensure(&mut n, "IPFIX scapy data encodes to the capture", hex(&d.wire()) == data_hex);
    let mut p = NetflowParser::default();
    let mut st = Stats::default();
    let r1 = p.parse_bytes(&unhex(tmpl_hex));
    let r2 = p.parse_bytes(&raw);
    let ok = match (r1.as_slice(), r2.as_slice()) {
        ([NetflowPacket::IPFix(a)], [NetflowPacket::IPFix(b)]) => check_ipfix(&t, a, &mut st).is_ok() && check_ipfix(&d, b, &mut st).is_ok(),
        _ => false,
    };
    ensure(&mut n, "library decodes the IPFIX scapy capture as the abstract stream says", ok);
    // --- IPFIX scapy options template: id 308, 3 fields, 1 scope, 2 bytes padding
    let opt_hex = "000a0028583de05700000ecf00000000000300180134000300010005000200240002002500020000";
    let o = IpfixMsg { export_time: 0x583de057, seq: 0x0ecf, domain: 0, sets: vec![IpfixSet::OptionsTemplate { records: vec![IpfixOptTmpl { id: 308, scope_count: 1, fields: vec![spec(5, 2), spec(36, 2), spec(37, 2)] }], padding: vec![0, 0] }] };
    ensure(&mut n, "IPFIX scapy options template encodes to the capture", hex(&o.wire()) == opt_hex);
    let r = NetflowParser::default().parse_bytes(&unhex(opt_hex));
    let ok = match r.as_slice() {
        [NetflowPacket::IPFix(a)] => check_ipfix(&o, a, &mut st).is_ok(),
        _ => false,
    };
    ensure(&mut n, "library decodes the IPFIX options template capture as the abstract stream says", ok);
    // --- V9 capture: four template flowsets (ids 258, 259, 261, 262)
    let v9_hex = "0009000400a21e176658cb4600000155000000080000004c0102001100080004000c0004000f000400070002000b0002000a0002000e000200fc000400fd000400020004000100040016000400150004000400010005000101000002003d0001000000540103001300080004000c0004000f000400070002000b000200060001000a0002000e000200fc000400fd000400020004000100040016000400150004000400010005000100d1000801000002003d00010000005401050013001b0010001c0010003e001000070002000b000200060001000a0002000e000200fc000400fd00040002000400010004001600040015000400040001000500010050000601000002003d00010000005801060014001b0010001c0010003e0010001f000300070002000b000200060001000a0002000e000200fc000400fd00040002000400010004001600040015000400040001000500010050000601000002003d0001";
    let t258 = vec![(8, 4), (12, 4), (15, 4), (7, 2), (11, 2), (10, 2), (14, 2), (252, 4), (253, 4), (2, 4), (1, 4), (22, 4), (21, 4), (4, 1), (5, 1), (256, 2), (61, 1)];
    let t259 = vec![(8, 4), (12, 4), (15, 4), (7, 2), (11, 2), (6, 1), (10, 2), (14, 2), (252, 4), (253, 4), (2, 4), (1, 4), (22, 4), (21, 4), (4, 1), (5, 1), (209, 8), (256, 2), (61, 1)];
    let t261 = vec![(27, 16), (28, 16), (62, 16), (7, 2), (11, 2), (6, 1), (10, 2), (14, 2), (252, 4), (253, 4), (2, 4), (1, 4), (22, 4), (21, 4), (4, 1), (5, 1), (80, 6), (256, 2), (61, 1)];
    let t262 = vec![(27, 16), (28, 16), (62, 16), (31, 3), (7, 2), (11, 2), (6, 1), (10, 2), (14, 2), (252, 4), (253, 4), (2, 4), (1, 4), (22, 4), (21, 4), (4, 1), (5, 1), (80, 6), (256, 2), (61, 1)];
    let mk = |id: u16, f: Vec<(u16, u16)>| V9FlowSet::Template { templates: vec![V9Tmpl { id, fields: f }], padding: vec![] };
    let v = V9Pkt { count: 4, sys_up_time: 0x00a21e17, unix_secs: 0x6658cb46, seq: 0x155, source_id: 8, flowsets: vec![mk(258, t258), mk(259, t259), mk(261, t261), mk(262, t262)] };
    ensure(&mut n, "V9 template capture encodes from the abstract stream", hex(&v.wire()) == v9_hex);
    let r = NetflowParser::default().parse_bytes(&unhex(v9_hex));
    let ok = match r.as_slice() {
        [NetflowPacket::V9(a)] => check_v9(&v, a, &mut st).is_ok(),
        _ => false,
    };
    ensure(&mut n, "library decodes the V9 template capture as the abstract stream says", ok);
    // --- V5: the repo's test vector re-exports to itself and the offset table reads it
    let v5: Vec<u8> = [0u8, 5, 0, 1].iter().cloned().chain((0..68).map(|i| ((i + 4) % 10) as u8)).collect();
    let r = NetflowParser::default().parse_bytes(&v5);
    let mut fs = crate::props::fixed::FixedStats { fields: 0, records: 0, protos: Default::default(), name_findings: vec![] };
    let ok = match r.as_slice() {
        [e @ NetflowPacket::V5(_)] => crate::props::fixed::check_fixed(&v5, e, &mut fs).is_ok() && crate::props::fixed::check_export(&v5, e).is_ok(),
        _ => false,
    };
    ensure(&mut n, "V5 test vector agrees with the offset table and re-exports", ok);
    n
}
