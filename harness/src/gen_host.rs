//! G-host / G-mut / G-ext: structure-aware hostile inputs, mutation of conformant streams and
//! extreme-size inputs. No value oracle is attached to these; they feed the crash, accounting,
//! filter, split and cost monitors.

use crate::ast::*;
use crate::gen_conf::{Cfg, Exporter, Pools};
use crate::rng::Rng;

fn p16(o: &mut Vec<u8>, v: u16) {
    o.extend_from_slice(&v.to_be_bytes());
}
fn p32(o: &mut Vec<u8>, v: u32) {
    o.extend_from_slice(&v.to_be_bytes());
}

/// adversarial 16-bit count/length around an exact value
pub fn adv16(rng: &mut Rng, exact: usize) -> u16 {
    let e = exact.min(65535) as u16;
    match rng.below(16) {
        0 => 0,
        1 => 1,
        2 => 3,
        3 => 4,
        4 => 5,
        5 => e.wrapping_add(1),
        6 => e.wrapping_sub(1),
        7 => 255,
        8 => 256,
        9 => 32767,
        10 => 32768,
        11 => 65534,
        12 => 65535,
        _ => e,
    }
}

#[derive(Default, Clone)]
pub struct Hostile {
    pub v9_ids: Vec<u16>,
    pub ix_ids: Vec<u16>,
    /// bound on (zero-length fields x records) so that C01 workloads stay fast; C15 lifts it
    pub amp_budget: usize,
    /// tiny inputs for the interpreter (Miri) shards
    pub small: bool,
}

fn hostile_width(rng: &mut Rng) -> u16 {
    match rng.below(14) {
        0 => 0,
        1 => 0,
        2 => 255,
        3 => 65535,
        4 => 17,
        5 => 5,
        6 => 6,
        7 => 7,
        _ => rng.range(1, 16) as u16,
    }
}

fn hostile_id(rng: &mut Rng, known: &[u16]) -> u16 {
    match rng.below(10) {
        0 => 0,
        1 => 1,
        2 => 2,
        3 => 3,
        4 => rng.range(4, 255) as u16,
        5 | 6 if !known.is_empty() => *rng.pick(known),
        7 => 65535,
        _ => rng.range(256, 260) as u16,
    }
}

impl Hostile {
    pub fn new() -> Hostile {
        Hostile { v9_ids: vec![], ix_ids: vec![], amp_budget: 20_000, small: false }
    }

    fn v9_template_body(&mut self, rng: &mut Rng, pools: &Pools) -> Vec<u8> {
        let mut o = vec![];
        let nt = 1 + rng.usize(3);
        for _ in 0..nt {
            let id = if rng.chance(4, 5) { rng.range(256, 260) as u16 } else { hostile_id(rng, &self.v9_ids) };
            let nf = match rng.below(12) {
                0 => 0,
                1 if !self.small => rng.range(50, 300) as usize,
                _ => rng.range(1, 8) as usize,
            };
            p16(&mut o, id);
            p16(&mut o, if rng.chance(1, 8) { adv16(rng, nf) } else { nf as u16 });
            let zero_ok = nf <= 64;
            for _ in 0..nf {
                let t = if rng.chance(1, 5) { rng.u16() } else { *rng.pick(&pools.v9_known) };
                let mut w = hostile_width(rng);
                if w == 0 && !zero_ok && rng.chance(9, 10) {
                    w = 1;
                }
                p16(&mut o, t);
                p16(&mut o, w);
            }
            self.v9_ids.push(id);
        }
        if rng.chance(1, 6) {
            o.extend({ let n_ = rng.usize(4); rng.bytes(n_) });
        }
        o
    }

    fn v9_opt_template_body(&mut self, rng: &mut Rng, pools: &Pools) -> Vec<u8> {
        let mut o = vec![];
        let id = if rng.chance(4, 5) { rng.range(256, 260) as u16 } else { hostile_id(rng, &self.v9_ids) };
        let ns = rng.usize(4);
        let no = rng.usize(5);
        p16(&mut o, id);
        p16(&mut o, if rng.chance(1, 6) { adv16(rng, ns * 4) } else { (ns * 4) as u16 });
        p16(&mut o, if rng.chance(1, 6) { adv16(rng, no * 4) } else { (no * 4) as u16 });
        for _ in 0..ns {
            p16(&mut o, if rng.chance(1, 5) { rng.u16() } else { 1 + rng.below(5) as u16 });
            p16(&mut o, hostile_width(rng));
        }
        for _ in 0..no {
            p16(&mut o, if rng.chance(1, 5) { rng.u16() } else { *rng.pick(&pools.v9_known) });
            p16(&mut o, hostile_width(rng));
        }
        if rng.chance(1, 2) {
            o.extend(vec![0u8; rng.usize(4)]);
        }
        self.v9_ids.push(id);
        o
    }

    pub fn v9_packet(&mut self, rng: &mut Rng, pools: &Pools) -> Vec<u8> {
        let nfs = rng.usize(6);
        let mut body = vec![];
        for _ in 0..nfs {
            let k = rng.below(10);
            let (id, b) = if k < 3 {
                (0u16, self.v9_template_body(rng, pools))
            } else if k < 4 {
                (1u16, self.v9_opt_template_body(rng, pools))
            } else {
                let id = hostile_id(rng, &self.v9_ids);
                let n = match rng.below(10) {
                    0 => 0,
                    1 if !self.small => rng.range(200, 2000) as usize,
                    _ => rng.range(1, 64) as usize,
                };
                (id, rng.bytes(n))
            };
            p16(&mut body, id);
            p16(&mut body, if rng.chance(1, 5) { adv16(rng, b.len() + 4) } else { (b.len() + 4) as u16 });
            body.extend(b);
        }
        let mut o = vec![];
        p16(&mut o, 9);
        p16(&mut o, if rng.chance(1, 3) { adv16(rng, nfs) } else { nfs as u16 });
        p32(&mut o, rng.b32());
        p32(&mut o, rng.b32());
        p32(&mut o, rng.b32());
        p32(&mut o, rng.b32());
        o.extend(body);
        o
    }

    fn ix_spec(&mut self, rng: &mut Rng, pools: &Pools, zero_ok: bool) -> Vec<u8> {
        let mut o = vec![];
        let ent = rng.chance(1, 6);
        let t = if rng.chance(1, 6) { rng.u16() & 0x7fff } else { *rng.pick(&pools.ipfix_known) };
        let mut w = hostile_width(rng);
        if w == 0 && !zero_ok && rng.chance(9, 10) {
            w = 2;
        }
        p16(&mut o, if ent { t | 0x8000 } else { t });
        p16(&mut o, w);
        if ent && rng.chance(9, 10) {
            p32(&mut o, rng.b32());
        }
        o
    }

    pub fn ipfix_msg(&mut self, rng: &mut Rng, pools: &Pools) -> Vec<u8> {
        let ns = rng.usize(6);
        let mut body = vec![];
        for _ in 0..ns {
            let k = rng.below(10);
            let (id, b) = if k < 3 {
                let mut o = vec![];
                let id = if rng.chance(4, 5) { rng.range(256, 260) as u16 } else { hostile_id(rng, &self.ix_ids) };
                let nf = match rng.below(12) {
                    0 => 0,
                    1 if !self.small => rng.range(50, 300) as usize,
                    _ => rng.range(1, 8) as usize,
                };
                p16(&mut o, id);
                p16(&mut o, if rng.chance(1, 8) { adv16(rng, nf) } else { nf as u16 });
                for _ in 0..nf {
                    o.extend(self.ix_spec(rng, pools, nf <= 64));
                }
                if rng.chance(1, 6) {
                    o.extend({ let n_ = rng.usize(4); rng.bytes(n_) });
                }
                self.ix_ids.push(id);
                (if rng.chance(9, 10) { 2u16 } else { rng.range(0, 254) as u16 }, o)
            } else if k < 4 {
                let mut o = vec![];
                let id = if rng.chance(4, 5) { rng.range(256, 260) as u16 } else { hostile_id(rng, &self.ix_ids) };
                let nf = rng.range(0, 6) as usize;
                p16(&mut o, id);
                if nf > 0 && rng.chance(1, 5) {
                    // accepted oddity: scope_field_count > field_count, with scope + field
                    // specifiers actually present
                    let fc = 1 + rng.usize(nf);
                    let sc = fc + 1 + rng.usize(3);
                    p16(&mut o, fc as u16);
                    p16(&mut o, sc as u16);
                    for _ in 0..(fc + sc) {
                        o.extend(self.ix_spec(rng, pools, true));
                    }
                } else {
                    p16(&mut o, if rng.chance(1, 6) { adv16(rng, nf) } else { nf as u16 });
                    p16(&mut o, if rng.chance(1, 3) { adv16(rng, nf / 2) } else { (nf / 2) as u16 });
                    for _ in 0..nf {
                        o.extend(self.ix_spec(rng, pools, true));
                    }
                }
                if rng.chance(1, 2) {
                    o.extend(vec![0u8; rng.usize(4)]);
                }
                self.ix_ids.push(id);
                (3u16, o)
            } else {
                let id = hostile_id(rng, &self.ix_ids);
                let n = match rng.below(10) {
                    0 => 0,
                    1 if !self.small => rng.range(200, 2000) as usize,
                    _ => rng.range(1, 64) as usize,
                };
                let mut b = rng.bytes(n);
                // plausible variable-length prefixes
                if rng.chance(1, 2) && !b.is_empty() {
                    b[0] = *rng.pick(&[0u8, 1, 2, 254, 255]);
                }
                (id, b)
            };
            p16(&mut body, id);
            p16(&mut body, if rng.chance(1, 5) { adv16(rng, b.len() + 4) } else { (b.len() + 4) as u16 });
            body.extend(b);
        }
        let mut o = vec![];
        p16(&mut o, 10);
        p16(&mut o, if rng.chance(1, 4) { adv16(rng, body.len() + 16) } else { (body.len() + 16) as u16 });
        p32(&mut o, rng.b32());
        p32(&mut o, rng.b32());
        p32(&mut o, rng.b32());
        o.extend(body);
        o
    }

    pub fn fixed(&mut self, rng: &mut Rng, version: u16) -> Vec<u8> {
        let rl = if version == 5 { 48 } else { 52 };
        let n = match rng.below(10) {
            0 => 0,
            1 if !self.small => rng.range(20, 60) as usize,
            _ => rng.range(1, 4) as usize,
        };
        let mut o = vec![];
        p16(&mut o, version);
        p16(&mut o, if rng.chance(1, 3) { adv16(rng, n) } else { n as u16 });
        o.extend(rng.bytes(20));
        o.extend(rng.bytes(n * rl));
        match rng.below(8) {
            0 => {
                let k = rng.usize(o.len() + 1);
                o.truncate(k);
            }
            1 => o.extend({ let n_ = 1 + rng.usize(rl); rng.bytes(n_) }),
            _ => {}
        }
        o
    }

    pub fn packet(&mut self, rng: &mut Rng, pools: &Pools) -> Vec<u8> {
        match rng.below(20) {
            0..=6 => self.v9_packet(rng, pools),
            7..=13 => self.ipfix_msg(rng, pools),
            14 | 15 => self.fixed(rng, 5),
            16 | 17 => self.fixed(rng, 7),
            18 => {
                // unknown / odd version numbers
                let mut o = vec![];
                p16(&mut o, *rng.pick(&[0u16, 1, 6, 8, 11, 255, 0x0a00, 0x0900, 0xffff]));
                o.extend({ let n_ = rng.usize(40); rng.bytes(n_) });
                o
            }
            _ => { let n_ = rng.usize(48); rng.bytes(n_) },
        }
    }

    /// one buffer: 1..k packets concatenated, possibly truncated or followed by garbage
    pub fn buffer(&mut self, rng: &mut Rng, pools: &Pools) -> Vec<u8> {
        let n = match rng.below(10) {
            0 => 0,
            1 | 2 => 1 + rng.usize(5),
            _ => 1,
        };
        let mut o = vec![];
        for _ in 0..n {
            o.extend(self.packet(rng, pools));
        }
        match rng.below(12) {
            0 => {
                let k = rng.usize(o.len() + 1);
                o.truncate(k);
            }
            1 => o.extend({ let n_ = 1 + rng.usize(8); rng.bytes(n_) }),
            _ => {}
        }
        o.truncate(65535);
        o
    }
}

/// G-mut: mutate wire bytes
pub fn mutate(rng: &mut Rng, src: &[u8], other: &[u8]) -> Vec<u8> {
    let mut b = src.to_vec();
    let n = 1 + rng.usize(4);
    for _ in 0..n {
        if b.is_empty() {
            b = rng.bytes(4);
            continue;
        }
        match rng.below(10) {
            0 => {
                let i = rng.usize(b.len());
                b[i] ^= 1 << rng.below(8);
            }
            1 => {
                let i = rng.usize(b.len());
                b[i] = *rng.pick(&[0u8, 1, 0x7f, 0x80, 0xff, 4, 5]);
            }
            2 => {
                let i = rng.usize(b.len() + 1);
                let ins = { let n_ = 1 + rng.usize(4); rng.bytes(n_) };
                b.splice(i..i, ins);
            }
            3 => {
                let i = rng.usize(b.len());
                let k = (1 + rng.usize(4)).min(b.len() - i);
                b.drain(i..i + k);
            }
            4 => {
                let i = rng.usize(b.len());
                let k = (1 + rng.usize(32)).min(b.len() - i);
                let chunk = b[i..i + k].to_vec();
                let j = rng.usize(b.len() + 1);
                b.splice(j..j, chunk);
            }
            5 => {
                let k = rng.usize(b.len() + 1);
                b.truncate(k);
            }
            6 => {
                // splice with another stream
                let i = rng.usize(b.len() + 1);
                let j = rng.usize(other.len() + 1);
                b.truncate(i);
                b.extend_from_slice(&other[j..]);
            }
            7 => {
                // overwrite an aligned 16-bit word with a boundary value
                if b.len() >= 2 {
                    let i = rng.usize(b.len() / 2) * 2;
                    let v = rng.b16().to_be_bytes();
                    b[i] = v[0];
                    b[i + 1] = v[1];
                }
            }
            8 => b.extend({ let n_ = 1 + rng.usize(8); rng.bytes(n_) }),
            _ => {
                let i = rng.usize(b.len());
                b[i] = rng.u8();
            }
        }
    }
    b.truncate(65535);
    b
}

/// conformant packet bytes (for mutation parents and mixed histories)
pub fn conformant_packet(rng: &mut Rng, ex: &mut Exporter, cfg: &Cfg, pools: &Pools) -> Vec<u8> {
    match rng.below(8) {
        0 => { let n = rng.usize(4); crate::gen_conf::fixed_pkt(rng, 5, n).wire() }
        1 => { let n = rng.usize(4); crate::gen_conf::fixed_pkt(rng, 7, n).wire() }
        2..=4 => ex.v9_packet(rng, cfg, pools).wire(),
        _ => ex.ipfix_msg(rng, cfg, pools).wire(),
    }
}

// ---------------------------------------------------------------- G-ext

/// Extreme-size inputs. Each returns a history (list of buffers for one parser).
pub fn extremes() -> Vec<(&'static str, Vec<Vec<u8>>)> {
    let mut out: Vec<(&'static str, Vec<Vec<u8>>)> = vec![];
    // IPFIX: template with one 1-byte field, one data set filling the datagram
    {
        let t = IpfixMsg { export_time: 1, seq: 1, domain: 1, sets: vec![IpfixSet::Template { records: vec![IpfixTmpl { id: 256, fields: vec![IpfixSpec { type_num: 4, len: 1, enterprise: None }] }], padding: vec![] }] };
        let n = 65535 - 16 - 4;
        let mut d = vec![];
        p16(&mut d, 10);
        p16(&mut d, 65535);
        p32(&mut d, 1);
        p32(&mut d, 2);
        p32(&mut d, 1);
        p16(&mut d, 256);
        p16(&mut d, (n + 4) as u16);
        d.extend((0..n).map(|i| i as u8));
        out.push(("ipfix-65515-one-byte-records", vec![t.wire(), d]));
    }
    // V9: same
    {
        let t = V9Pkt { count: 1, sys_up_time: 1, unix_secs: 1, seq: 1, source_id: 1, flowsets: vec![V9FlowSet::Template { templates: vec![V9Tmpl { id: 256, fields: vec![(4, 1)] }], padding: vec![] }] };
        let n = 65535 - 20 - 4;
        let mut d = vec![];
        p16(&mut d, 9);
        p16(&mut d, 1);
        p32(&mut d, 1);
        p32(&mut d, 1);
        p32(&mut d, 2);
        p32(&mut d, 1);
        p16(&mut d, 256);
        p16(&mut d, (n + 4) as u16);
        d.extend((0..n).map(|i| (i % 145) as u8));
        out.push(("v9-65511-one-byte-records", vec![t.wire(), d]));
    }
    // values whose re-export is larger than their wire form (listed lossy classes), at the largest
    // sizes a datagram allows: the consumer pipeline must still return (Ok or Err), never panic
    {
        let ix_hdr = |len: usize| {
            let mut d = vec![];
            p16(&mut d, 10);
            p16(&mut d, len as u16);
            p32(&mut d, 1);
            p32(&mut d, 2);
            p32(&mut d, 1);
            d
        };
        let v9_hdr = || {
            let mut d = vec![];
            p16(&mut d, 9);
            p16(&mut d, 1);
            p32(&mut d, 1);
            p32(&mut d, 1);
            p32(&mut d, 2);
            p32(&mut d, 1);
            d
        };
        // one fixed-length string field of 60000 invalid-UTF-8 bytes (IPFIX interfaceName 82, V9 IF_NAME 82)
        let t = IpfixMsg { export_time: 1, seq: 1, domain: 1, sets: vec![IpfixSet::Template { records: vec![IpfixTmpl { id: 256, fields: vec![IpfixSpec { type_num: 82, len: 60000, enterprise: None }] }], padding: vec![] }] };
        let mut d = ix_hdr(16 + 4 + 60000);
        p16(&mut d, 256);
        p16(&mut d, 60004);
        d.extend(vec![0xffu8; 60000]);
        out.push(("ipfix-string-60000-invalid-utf8", vec![t.wire(), d]));
        let t = V9Pkt { count: 1, sys_up_time: 1, unix_secs: 1, seq: 1, source_id: 1, flowsets: vec![V9FlowSet::Template { templates: vec![V9Tmpl { id: 256, fields: vec![(82, 60000)] }], padding: vec![] }] };
        let mut d = v9_hdr();
        p16(&mut d, 256);
        p16(&mut d, 60004);
        d.extend(vec![0xffu8; 60000]);
        out.push(("v9-string-60000-invalid-utf8", vec![t.wire(), d]));
        // 900 records of a 64-byte invalid-UTF-8 string
        let t = IpfixMsg { export_time: 1, seq: 1, domain: 1, sets: vec![IpfixSet::Template { records: vec![IpfixTmpl { id: 256, fields: vec![IpfixSpec { type_num: 82, len: 64, enterprise: None }] }], padding: vec![] }] };
        let mut d = ix_hdr(16 + 4 + 64 * 900);
        p16(&mut d, 256);
        p16(&mut d, (4 + 64 * 900) as u16);
        d.extend(vec![0xfeu8; 64 * 900]);
        out.push(("ipfix-900-invalid-utf8-strings", vec![t.wire(), d]));
        // variable-length string, long form, 60000 invalid bytes
        let t = IpfixMsg { export_time: 1, seq: 1, domain: 1, sets: vec![IpfixSet::Template { records: vec![IpfixTmpl { id: 256, fields: vec![IpfixSpec { type_num: 82, len: 65535, enterprise: None }] }], padding: vec![] }] };
        let mut d = ix_hdr(16 + 4 + 3 + 60000);
        p16(&mut d, 256);
        p16(&mut d, (4 + 3 + 60000) as u16);
        d.push(255);
        p16(&mut d, 60000);
        d.extend(vec![0xc0u8; 60000]);
        out.push(("ipfix-varlen-string-60000-invalid-utf8", vec![t.wire(), d]));
        // 10000 MAC addresses (6 bytes on the wire, 17 as re-exported text)
        let t = IpfixMsg { export_time: 1, seq: 1, domain: 1, sets: vec![IpfixSet::Template { records: vec![IpfixTmpl { id: 256, fields: vec![IpfixSpec { type_num: 56, len: 6, enterprise: None }] }], padding: vec![] }] };
        let mut d = ix_hdr(16 + 4 + 60000);
        p16(&mut d, 256);
        p16(&mut d, 60004);
        d.extend((0..60000).map(|i| (i * 7) as u8));
        out.push(("ipfix-10000-mac-addresses", vec![t.wire(), d]));
        let t = V9Pkt { count: 1, sys_up_time: 1, unix_secs: 1, seq: 1, source_id: 1, flowsets: vec![V9FlowSet::Template { templates: vec![V9Tmpl { id: 256, fields: vec![(56, 6)] }], padding: vec![] }] };
        let mut d = v9_hdr();
        p16(&mut d, 256);
        p16(&mut d, 60004);
        d.extend((0..60000).map(|i| (i * 7) as u8));
        out.push(("v9-10000-mac-addresses", vec![t.wire(), d]));
        // 7500 8-byte durations (flowStartMilliseconds 152) with all bits set
        let t = IpfixMsg { export_time: 1, seq: 1, domain: 1, sets: vec![IpfixSet::Template { records: vec![IpfixTmpl { id: 256, fields: vec![IpfixSpec { type_num: 152, len: 8, enterprise: None }] }], padding: vec![] }] };
        let mut d = ix_hdr(16 + 4 + 60000);
        p16(&mut d, 256);
        p16(&mut d, 60004);
        d.extend(vec![0xffu8; 60000]);
        out.push(("ipfix-7500-max-durations", vec![t.wire(), d]));
        // 15000 4-byte V9 durations (LAST_SWITCHED 21, FIRST_SWITCHED 22)
        let t = V9Pkt { count: 1, sys_up_time: 1, unix_secs: 1, seq: 1, source_id: 1, flowsets: vec![V9FlowSet::Template { templates: vec![V9Tmpl { id: 256, fields: vec![(21, 4), (22, 4)] }], padding: vec![] }] };
        let mut d = v9_hdr();
        p16(&mut d, 256);
        p16(&mut d, 60004);
        d.extend(vec![0xffu8; 60000]);
        out.push(("v9-7500-max-switched-times", vec![t.wire(), d]));
    }
    // RFC 6313 structured data nested as deep as a datagram allows: a basicList (element 291) whose
    // single element is again a basicList of element 291, 12 000 levels, 5 bytes per level. This
    // library carries the field as opaque octets; a decoder that recurses per level meets its
    // deepest legal input here.
    {
        let levels = 12000usize;
        let mut content: Vec<u8> = vec![0xde, 0xad];
        for _ in 0..levels {
            let l = content.len();
            let mut lv = vec![0xffu8, 0x01, 0x23];
            lv.extend_from_slice(&(l as u16).to_be_bytes());
            lv.extend_from_slice(&content);
            content = lv;
        }
        let t = IpfixMsg { export_time: 1, seq: 1, domain: 1, sets: vec![IpfixSet::Template { records: vec![IpfixTmpl { id: 256, fields: vec![IpfixSpec { type_num: 291, len: 65535, enterprise: None }] }], padding: vec![] }] };
        let total = 16 + 4 + 3 + content.len();
        let mut d = vec![];
        p16(&mut d, 10);
        p16(&mut d, total as u16);
        p32(&mut d, 1);
        p32(&mut d, 2);
        p32(&mut d, 1);
        p16(&mut d, 256);
        p16(&mut d, (4 + 3 + content.len()) as u16);
        d.push(255);
        p16(&mut d, content.len() as u16);
        d.extend_from_slice(&content);
        out.push(("ipfix-basiclist-nested-12000-levels", vec![t.wire(), d]));
    }
    // 4095 chained 16-byte IPFIX messages
    {
        let mut d = vec![];
        for i in 0..4095u32 {
            p16(&mut d, 10);
            p16(&mut d, 16);
            p32(&mut d, i);
            p32(&mut d, i);
            p32(&mut d, 0);
        }
        out.push(("ipfix-4095-chained-headers", vec![d]));
    }
    // 2730 chained V5 headers with count 0
    {
        let mut d = vec![];
        for _ in 0..2730 {
            p16(&mut d, 5);
            p16(&mut d, 0);
            d.extend(vec![0u8; 20]);
        }
        out.push(("v5-2730-chained-empty", vec![d]));
    }
    // 3276 chained V9 headers with count 0
    {
        let mut d = vec![];
        for _ in 0..3276 {
            p16(&mut d, 9);
            p16(&mut d, 0);
            d.extend(vec![0u8; 16]);
        }
        out.push(("v9-3276-chained-empty", vec![d]));
    }
    // V9 packet with 16K flowsets of length 4
    {
        let mut d = vec![];
        p16(&mut d, 9);
        p16(&mut d, 16378);
        d.extend(vec![0u8; 16]);
        for _ in 0..16378 {
            p16(&mut d, 0);
            p16(&mut d, 4);
        }
        out.push(("v9-16378-empty-template-flowsets", vec![d]));
    }
    // IPFIX message with 16K sets of length 4 (id 2: empty template -> stops at first)
    {
        let mut d = vec![];
        p16(&mut d, 10);
        p16(&mut d, 65532);
        d.extend(vec![0u8; 12]);
        for _ in 0..16379 {
            p16(&mut d, 2);
            p16(&mut d, 4);
        }
        out.push(("ipfix-16379-empty-sets", vec![d]));
    }
    // maximal V5 / V7
    {
        let mut d = vec![];
        p16(&mut d, 5);
        p16(&mut d, 1364);
        d.extend(vec![7u8; 20 + 1364 * 48]);
        out.push(("v5-1364-records", vec![d]));
        let mut d = vec![];
        p16(&mut d, 7);
        p16(&mut d, 1259);
        d.extend(vec![7u8; 20 + 1259 * 52]);
        out.push(("v7-1259-records", vec![d]));
        let mut d = vec![];
        p16(&mut d, 5);
        p16(&mut d, 65535);
        d.extend(vec![7u8; 20 + 48]);
        out.push(("v5-count-65535-short-body", vec![d]));
    }
    // V9 template with 16K one-byte fields, then data
    {
        let nf = 16000usize;
        let mut t = vec![];
        p16(&mut t, 9);
        p16(&mut t, 1);
        t.extend(vec![0u8; 16]);
        p16(&mut t, 0);
        p16(&mut t, (8 + nf * 4) as u16);
        p16(&mut t, 300);
        p16(&mut t, nf as u16);
        for _ in 0..nf {
            p16(&mut t, 1);
            p16(&mut t, 1);
        }
        let mut d = vec![];
        p16(&mut d, 9);
        p16(&mut d, 1);
        d.extend(vec![0u8; 16]);
        p16(&mut d, 300);
        p16(&mut d, (4 + nf * 4) as u16);
        d.extend(vec![1u8; nf * 4]);
        out.push(("v9-16000-field-template", vec![t, d]));
    }
    // IPFIX template with 16K one-byte fields, then data
    {
        let nf = 16000usize;
        let mut t = vec![];
        p16(&mut t, 10);
        p16(&mut t, (16 + 8 + nf * 4) as u16);
        t.extend(vec![0u8; 12]);
        p16(&mut t, 2);
        p16(&mut t, (8 + nf * 4) as u16);
        p16(&mut t, 300);
        p16(&mut t, nf as u16);
        for _ in 0..nf {
            p16(&mut t, 1);
            p16(&mut t, 1);
        }
        let mut d = vec![];
        p16(&mut d, 10);
        p16(&mut d, (16 + 4 + nf * 4) as u16);
        d.extend(vec![0u8; 12]);
        p16(&mut d, 300);
        p16(&mut d, (4 + nf * 4) as u16);
        d.extend(vec![1u8; nf * 4]);
        out.push(("ipfix-16000-field-template", vec![t, d]));
    }
    // IPFIX variable-length: one maximal field; and 20K empty variable-length records
    {
        let t = IpfixMsg { export_time: 1, seq: 1, domain: 1, sets: vec![IpfixSet::Template { records: vec![IpfixTmpl { id: 256, fields: vec![IpfixSpec { type_num: 82, len: 65535, enterprise: None }] }], padding: vec![] }] };
        let n = 65535 - 16 - 4 - 3;
        let mut d = vec![];
        p16(&mut d, 10);
        p16(&mut d, 65535);
        d.extend(vec![0u8; 12]);
        p16(&mut d, 256);
        p16(&mut d, (n + 7) as u16);
        d.push(255);
        p16(&mut d, n as u16);
        d.extend(vec![b'x'; n]);
        let n2 = 60000;
        let mut e = vec![];
        p16(&mut e, 10);
        p16(&mut e, (16 + 4 + n2) as u16);
        e.extend(vec![0u8; 12]);
        p16(&mut e, 256);
        p16(&mut e, (n2 + 4) as u16);
        e.extend(vec![0u8; n2]);
        out.push(("ipfix-varlen-maximal-and-60000-empty", vec![t.wire(), d, e]));
    }
    // zero-length amplification within the C01 budget: 200 zero-length fields x 2000 records
    {
        let nf = 200usize;
        let mut t = vec![];
        p16(&mut t, 9);
        p16(&mut t, 1);
        t.extend(vec![0u8; 16]);
        p16(&mut t, 0);
        p16(&mut t, (8 + (nf + 1) * 4) as u16);
        p16(&mut t, 301);
        p16(&mut t, (nf + 1) as u16);
        for _ in 0..nf {
            p16(&mut t, 90);
            p16(&mut t, 0);
        }
        p16(&mut t, 1);
        p16(&mut t, 1);
        let mut d = vec![];
        p16(&mut d, 9);
        p16(&mut d, 1);
        d.extend(vec![0u8; 16]);
        p16(&mut d, 301);
        p16(&mut d, 2004);
        d.extend(vec![1u8; 2000]);
        out.push(("v9-zero-length-200x2000", vec![t, d]));
    }
    // V9 zero-size template (the divide-by-zero witness) with data
    {
        let mut t = vec![];
        p16(&mut t, 9);
        p16(&mut t, 2);
        t.extend(vec![0u8; 16]);
        p16(&mut t, 0);
        p16(&mut t, 12);
        p16(&mut t, 256);
        p16(&mut t, 1);
        p16(&mut t, 1);
        p16(&mut t, 0);
        p16(&mut t, 256);
        p16(&mut t, 8);
        t.extend(vec![1, 2, 3, 4]);
        out.push(("v9-zero-size-template", vec![t]));
    }
    out
}
