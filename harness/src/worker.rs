//! Worker process: argument parsing, progress reporting (so that the supervisor knows the exact
//! case when the process dies), the per-property dispatch and the raw replay command.

use crate::ctx::Report;
use crate::gen_conf::Pools;
use crate::rng::Rng;
use serde_json::json;
use std::io::{Seek, SeekFrom, Write};

pub const ONEOFF: u64 = 1_000_000_000;

pub struct W {
    pub no_oneoff: bool,
    pub stack_mb: usize,
    pub prop: String,
    pub tier: String,
    pub seed: u64,
    pub shard: u64,
    pub nshards: u64,
    pub cases: u64,
    pub start: u64,
    pub only: Option<u64>,
    pub progress: Option<std::fs::File>,
    pub transcript: Option<String>,
    pub rep: Report,
    pub pools: Pools,
    pub corpus: Vec<Vec<Vec<u8>>>,
    pub thorough: bool,
    pub case_started: Option<std::time::Instant>,
}

impl W {
    /// Case indices this invocation covers.
    pub fn indices(&self) -> Vec<u64> {
        match self.only {
            Some(i) if i >= ONEOFF => vec![],
            Some(i) => vec![i],
            None => (self.start..self.cases).collect(),
            // one-off items are addressed through `oneoff`

        }
    }
    /// Mark the start of case `idx` (progress file) and return its private PRNG.
    pub fn begin_case(&mut self, idx: u64, family: &str) -> Rng {
        if let Some(t) = self.case_started {
            self.rep.max("max_case_wall_s", t.elapsed().as_secs_f64());
        }
        self.case_started = Some(std::time::Instant::now());
        if let Some(f) = &mut self.progress {
            let _ = f.seek(SeekFrom::Start(0));
            let _ = f.write_all(format!("{:>20}\n", idx).as_bytes());
        }
        self.rep.case = json!({"seed": self.seed, "shard": self.shard, "nshards": self.nshards, "index": idx, "family": family, "tier": self.tier});
        self.rep.evaluations += 1;
        Rng::derive(self.seed, self.shard.wrapping_mul(1_000_003).wrapping_add(self.nshards), idx)
    }
    /// Is this one-off item (exhaustive sub-space element j) assigned to this shard?
    pub fn mine(&self, j: u64) -> bool {
        self.only.is_none() && self.start == 0 && !self.no_oneoff && j % self.nshards == self.shard
    }
    /// One-off item j (case index ONEOFF + j): run it here? (assigned shard, or explicitly replayed)
    pub fn oneoff(&self, j: u64) -> bool {
        match self.only {
            Some(i) => i == ONEOFF + j,
            None => self.mine(j),
        }
    }
}

fn arg<'a>(args: &'a [String], name: &str) -> Option<&'a str> {
    args.iter().position(|a| a == name).and_then(|i| args.get(i + 1)).map(|s| s.as_str())
}

pub fn main(args: &[String]) {
    let prop = args.first().cloned().unwrap_or_default();
    let seed: u64 = arg(args, "--seed").and_then(|s| s.parse().ok()).unwrap_or(1);
    let shard: u64 = arg(args, "--shard").and_then(|s| s.parse().ok()).unwrap_or(0);
    let nshards: u64 = arg(args, "--nshards").and_then(|s| s.parse().ok()).unwrap_or(1);
    let cases: u64 = arg(args, "--cases").and_then(|s| s.parse().ok()).unwrap_or(1000);
    let start: u64 = arg(args, "--start").and_then(|s| s.parse().ok()).unwrap_or(0);
    let only: Option<u64> = arg(args, "--only").and_then(|s| s.parse().ok());
    let tier = arg(args, "--tier").unwrap_or("quick").to_string();
    let progress = arg(args, "--progress").and_then(|p| std::fs::OpenOptions::new().create(true).write(true).truncate(true).open(p).ok());
    let transcript = arg(args, "--transcript").map(|s| s.to_string());
    let live_cap: usize = arg(args, "--live-cap-mb").and_then(|s| s.parse().ok()).unwrap_or(2048);
    crate::alloc::set_caps(live_cap << 20, usize::MAX);
    crate::util::install_panic_hook();
    let corpus = crate::corpus::load();
    let thorough = tier == "thorough";
    let no_oneoff = args.iter().any(|a| a == "--no-oneoff");
    let stack_mb: usize = arg(args, "--stack-mb").and_then(|s| s.parse().ok()).unwrap_or(2);
    let mut w = W { no_oneoff, stack_mb, rep: Report::new(&prop, &tier, seed, shard, nshards), prop: prop.clone(), tier, seed, shard, nshards, cases, start, only, progress, transcript, pools: Pools::new(), corpus, thorough, case_started: None };
    let t0 = std::time::Instant::now();
    crate::props::dispatch(&mut w);
    if let Some(t) = w.case_started {
        w.rep.max("max_case_wall_s", t.elapsed().as_secs_f64());
    }
    w.rep.extra.insert("wall_s".into(), json!(t0.elapsed().as_secs_f64()));
    let out = w.rep.to_json();
    let stdout = std::io::stdout();
    let mut l = stdout.lock();
    let _ = writeln!(l, "{}", out);
}

/// Re-execute the raw operations of a replay file on fresh parsers and print what the library
/// returns (Debug), the accounting verdict and the cache contents after each call.
pub fn replay(args: &[String]) {
    let path = args.first().expect("replay file");
    let text = std::fs::read_to_string(path).expect("read replay file");
    let v: serde_json::Value = serde_json::from_str(&text).expect("json");
    let r = if v.get("ops").is_some() { &v } else { &v["replay"] };
    let parsers = r["parsers"].as_array().cloned().unwrap_or_default();
    let mut sut = crate::ctx::Sut::new(parsers.len().max(1));
    for (i, p) in parsers.iter().enumerate() {
        if let Some(a) = p.as_array() {
            sut.parsers[i].allowed_versions = a.iter().filter_map(|x| x.as_u64()).map(|x| x as u16).collect();
        } else if p.as_str() == Some("all-65536") {
            sut.parsers[i].allowed_versions = (0..=65535u16).collect();
        }
    }
    crate::util::install_panic_hook();
    if args.iter().any(|a| a == "--cost") {
        // C15: measure and judge every call of the replayed history
        let mut stats = crate::props::cost::CostStats::default();
        for op in r["ops"].as_array().cloned().unwrap_or_default() {
            let p = op["parser"].as_u64().unwrap_or(0) as usize;
            if op.get("evict").is_some() || op.get("rekey").is_some() || op.get("persist").is_some() {
                continue;
            }
            if let Some(a) = op.get("allowed") {
                if let Some(arr) = a.as_array() {
                    sut.parsers[p].allowed_versions = arr.iter().filter_map(|x| x.as_u64()).map(|x| x as u16).collect();
                }
                continue;
            }
            let b = crate::util::unhex(op["hex"].as_str().unwrap_or(""));
            let c = crate::props::cost::measure(&mut sut, p, &b);
            let v = match crate::props::cost::judge(&c, &mut stats) {
                Ok(_) => "within the bounds".to_string(),
                Err(d) => format!("VIOLATES {} {}: {}", d.unit, d.class, d.detail),
            };
            println!("parser {} <- {} bytes: requested {} bytes in {} allocations, largest single request {}, result {} bytes, {} structural items, {} cells from zero-length fields, zmax {}: {}", p, b.len(), c.m.requested, c.m.count, c.m.max_single, c.result_bytes, c.units, c.zero_cells, c.zmax, v);
        }
        return;
    }
    for op in r["ops"].as_array().cloned().unwrap_or_default() {
        let p = op["parser"].as_u64().unwrap_or(0) as usize;
        if let Some(a) = op.get("allowed") {
            if let Some(arr) = a.as_array() {
                sut.parsers[p].allowed_versions = arr.iter().filter_map(|x| x.as_u64()).map(|x| x as u16).collect();
            } else if a.as_str() == Some("all-65536") {
                sut.parsers[p].allowed_versions = (0..=65535u16).collect();
            }
            println!("parser {}: application assigns allowed_versions = {}", p, a);
            continue;
        }
        if let Some(e) = op.get("persist") {
            if e.as_str() == Some("snapshot") {
                sut.snapshot(p);
                println!("parser {}: application keeps a copy of the four cache maps", p);
            } else {
                sut.restore(p);
                println!("parser {}: application merges the kept copy back into the maps (absent keys only)", p);
            }
            let s = crate::observe::snap(&sut.parsers[p]);
            println!("  caches: v9.templates={:?} v9.options={:?} ipfix.templates={:?} ipfix.options={:?}", s.v9_t.keys().collect::<Vec<_>>(), s.v9_o.keys().collect::<Vec<_>>(), s.ix_t.keys().collect::<Vec<_>>(), s.ix_o.keys().collect::<Vec<_>>());
            continue;
        }
        if let Some(e) = op.get("rekey") {
            let map = e["map"].as_str().unwrap_or("");
            let id = e["id"].as_u64().unwrap_or(0) as u16;
            let to = e["to"].as_u64().unwrap_or(0) as u16;
            let was = crate::ctx::rekey_in(&mut sut.parsers[p], map, id, to);
            println!("parser {}: application moves the entry of {} under key {} to key {} (present: {})", p, map, id, to, was);
            continue;
        }
        if let Some(e) = op.get("evict") {
            let map = e["map"].as_str().unwrap_or("");
            let id = e["id"].as_u64().unwrap_or(0) as u16;
            let was = crate::ctx::evict_from(&mut sut.parsers[p], map, id);
            println!("parser {}: application removes id {} from {} (present: {})", p, id, map, was);
            continue;
        }
        let b = crate::util::unhex(op["hex"].as_str().unwrap_or(""));
        let res = std::panic::catch_unwind(std::panic::AssertUnwindSafe(|| sut.parse(p, &b)));
        match res {
            Ok(res) => {
                let allowed = sut.parsers[p].allowed_versions.clone();
                let acct = crate::observe::account(&b, &res, &allowed);
                println!("parser {} <- {} bytes: {} element(s) [{}]; accounting: {}", p, b.len(), res.len(), res.iter().map(crate::observe::kind).collect::<Vec<_>>().join(","), match acct { Ok(a) => format!("{:?}", a.ending), Err(d) => format!("DIVERGES {} {}", d.class, d.detail) });
                let dbg = format!("{:?}", res);
                println!("  {}", &dbg[..dbg.len().min(4000)]);
                let s = crate::observe::snap(&sut.parsers[p]);
                println!("  caches: v9.templates={:?} v9.options={:?} ipfix.templates={:?} ipfix.options={:?}", s.v9_t.keys().collect::<Vec<_>>(), s.v9_o.keys().collect::<Vec<_>>(), s.ix_t.keys().collect::<Vec<_>>(), s.ix_o.keys().collect::<Vec<_>>());
            }
            Err(_) => {
                println!("parser {} <- {} bytes: PANIC {:?}", p, b.len(), crate::util::take_panic());
            }
        }
    }
}
