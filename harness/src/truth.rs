//! M-truth: ground-truth differential monitor. Walks the library's decoded packet and the AST
//! it was encoded from in parallel, unit by unit (header field, template record, cell, padding).

use crate::ast::*;
use crate::interp::{compare, ipfix_dt, v9_dt, Cmp, DT};
use netflow_parser::variable_versions::data_number::FieldValue;
use netflow_parser::variable_versions::ipfix as ix;
use netflow_parser::variable_versions::ipfix_lookup::IPFixField;
use netflow_parser::variable_versions::v9;
use netflow_parser::variable_versions::v9_lookup::{ScopeFieldType, V9Field};
use std::collections::BTreeMap;

#[derive(Debug, Clone)]
pub struct Div {
    pub unit: String,
    pub class: String,
    pub detail: String,
}

pub fn div(unit: &str, class: &str, detail: String) -> Div {
    Div { unit: unit.to_string(), class: class.to_string(), detail }
}

#[derive(Default, Clone)]
pub struct Stats {
    pub cells: BTreeMap<(DT, usize), u64>,
    pub cells_total: u64,
    pub records: u64,
    pub templates: u64,
    pub flowsets: BTreeMap<&'static str, u64>,
    pub paddings: BTreeMap<usize, u64>,
    pub narrowed: u64,
    pub skipped_cells: u64,
    pub varlen_short: u64,
    pub varlen_long: u64,
    pub enterprise_cells: u64,
    pub findings: BTreeMap<String, u64>,
}

impl Stats {
    pub fn cell(&mut self, dt: DT, w: usize) {
        *self.cells.entry((dt, w.min(65))).or_insert(0) += 1;
        self.cells_total += 1;
    }
    pub fn fs(&mut self, k: &'static str) {
        *self.flowsets.entry(k).or_insert(0) += 1;
    }
    pub fn merge(&mut self, o: &Stats) {
        for (k, v) in &o.cells {
            *self.cells.entry(*k).or_insert(0) += v;
        }
        self.cells_total += o.cells_total;
        self.records += o.records;
        self.templates += o.templates;
        for (k, v) in &o.flowsets {
            *self.flowsets.entry(k).or_insert(0) += v;
        }
        for (k, v) in &o.paddings {
            *self.paddings.entry(*k).or_insert(0) += v;
        }
        self.narrowed += o.narrowed;
        self.skipped_cells += o.skipped_cells;
        self.varlen_short += o.varlen_short;
        self.varlen_long += o.varlen_long;
        self.enterprise_cells += o.enterprise_cells;
        for (k, v) in &o.findings {
            *self.findings.entry(k.clone()).or_insert(0) += v;
        }
    }
}

macro_rules! want {
    ($unit:expr, $name:expr, $got:expr, $exp:expr) => {
        if $got != $exp {
            return Err(div($unit, "value", format!("{}: got {:?} want {:?}", $name, $got, $exp)));
        }
    };
}

fn v9_tmpl_eq(unit: &str, got: &v9::Template, exp: &V9Tmpl) -> Result<(), Div> {
    want!(unit, "template_id", got.template_id, exp.id);
    want!(unit, "field_count", got.field_count as usize, exp.fields.len());
    want!(unit, "fields.len", got.fields.len(), exp.fields.len());
    for (i, (g, e)) in got.fields.iter().zip(exp.fields.iter()).enumerate() {
        want!(unit, format!("field[{}].type", i), g.field_type_number, e.0);
        want!(unit, format!("field[{}].length", i), g.field_length, e.1);
        want!(unit, format!("field[{}].field_type", i), g.field_type, V9Field::from(e.0));
    }
    Ok(())
}

fn v9_opt_tmpl_eq(unit: &str, got: &v9::OptionsTemplate, exp: &V9OptTmpl) -> Result<(), Div> {
    want!(unit, "template_id", got.template_id, exp.id);
    want!(unit, "options_scope_length", got.options_scope_length as usize, exp.scope.len() * 4);
    want!(unit, "options_length", got.options_length as usize, exp.opts.len() * 4);
    want!(unit, "scope_fields.len", got.scope_fields.len(), exp.scope.len());
    want!(unit, "option_fields.len", got.option_fields.len(), exp.opts.len());
    for (i, (g, e)) in got.scope_fields.iter().zip(exp.scope.iter()).enumerate() {
        want!(unit, format!("scope[{}].type", i), g.field_type_number, e.0);
        want!(unit, format!("scope[{}].length", i), g.field_length, e.1);
        want!(unit, format!("scope[{}].field_type", i), g.field_type, ScopeFieldType::from(e.0));
    }
    for (i, (g, e)) in got.option_fields.iter().zip(exp.opts.iter()).enumerate() {
        want!(unit, format!("option[{}].type", i), g.field_type_number, e.0);
        want!(unit, format!("option[{}].length", i), g.field_length, e.1);
        want!(unit, format!("option[{}].field_type", i), g.field_type, V9Field::from(e.0));
    }
    Ok(())
}

fn scope_bytes(s: &v9::ScopeDataField) -> (u16, &Vec<u8>) {
    match s {
        v9::ScopeDataField::System(v) => (1, v),
        v9::ScopeDataField::Interface(v) => (2, v),
        v9::ScopeDataField::LineCard(v) => (3, v),
        v9::ScopeDataField::NetFlowCache(v) => (4, v),
        v9::ScopeDataField::Template(v) => (5, v),
    }
}

/// Compare a decoded V9 packet with the AST it was encoded from.
pub fn check_v9(ast: &V9Pkt, got: &v9::V9, st: &mut Stats) -> Result<(), Div> {
    want!("v9/header", "version", got.header.version, 9u16);
    want!("v9/header", "count", got.header.count, ast.count);
    want!("v9/header", "sys_up_time", got.header.sys_up_time, ast.sys_up_time);
    want!("v9/header", "unix_secs", got.header.unix_secs, ast.unix_secs);
    want!("v9/header", "sequence_number", got.header.sequence_number, ast.seq);
    want!("v9/header", "source_id", got.header.source_id, ast.source_id);
    if got.flowsets.len() != ast.flowsets.len() {
        return Err(div("v9/flowsets", "count", format!("got {} flowsets want {}", got.flowsets.len(), ast.flowsets.len())));
    }
    for (fi, (g, e)) in got.flowsets.iter().zip(ast.flowsets.iter()).enumerate() {
        let unit = format!("v9/flowset[{}]", fi);
        want!(&unit, "flowset_id", g.header.flowset_id, e.id());
        want!(&unit, "length", g.header.length as usize, e.body().len() + 4);
        match (e, &g.body) {
            (V9FlowSet::Template { templates, padding }, v9::FlowSetBody::Template(gt)) => {
                st.fs("v9-template");
                want!(&unit, "templates.len", gt.templates.len(), templates.len());
                for (g1, e1) in gt.templates.iter().zip(templates.iter()) {
                    v9_tmpl_eq(&format!("{}/template", unit), g1, e1)?;
                    st.templates += 1;
                }
                want!(&format!("{}/padding", unit), "padding", &gt.padding, padding);
            }
            (V9FlowSet::OptionsTemplate { templates, padding }, v9::FlowSetBody::OptionsTemplate(gt)) => {
                st.fs("v9-options-template");
                want!(&unit, "templates.len", gt.templates.len(), templates.len());
                for (g1, e1) in gt.templates.iter().zip(templates.iter()) {
                    v9_opt_tmpl_eq(&format!("{}/options-template", unit), g1, e1)?;
                    st.templates += 1;
                }
                want!(&format!("{}/padding", unit), "padding", &gt.padding, padding);
            }
            (V9FlowSet::Data { tmpl, records, padding }, v9::FlowSetBody::Data(gd)) => {
                st.fs("v9-data");
                if gd.fields.len() != records.len() {
                    return Err(div(&format!("{}/data", unit), "record-count", format!("got {} records want {} (record size {}, body {})", gd.fields.len(), records.len(), tmpl.rec_size(), e.body().len())));
                }
                for (ri, (gr, er)) in gd.fields.iter().zip(records.iter()).enumerate() {
                    st.records += 1;
                    if gr.len() != er.len() {
                        return Err(div(&format!("{}/data", unit), "field-count", format!("record {} has {} cells want {}", ri, gr.len(), er.len())));
                    }
                    for (ci, ((k, (gf, gv)), eb)) in gr.iter().zip(er.iter()).enumerate() {
                        let (ty, _) = tmpl.fields[ci];
                        let u = format!("{}/data/record[{}]/cell[{}]", unit, ri, ci);
                        want!(&u, "index", *k, ci);
                        want!(&u, "field_type", *gf, V9Field::from(ty));
                        let dt = v9_dt(ty);
                        st.cell(dt, eb.len());
                        match compare(dt, eb, gv) {
                            Cmp::Ok => {}
                            Cmp::OkNarrowed => st.narrowed += 1,
                            Cmp::Skip => st.skipped_cells += 1,
                            Cmp::Bad(d) => return Err(div(&u, &format!("cell|{}|w{}", dt.name(), eb.len()), format!("type {} bytes {}: {}", ty, crate::util::hex(eb), d))),
                        }
                    }
                }
                *st.paddings.entry(padding.len()).or_insert(0) += 1;
                want!(&format!("{}/data/padding", unit), "padding", &gd.padding, padding);
            }
            (V9FlowSet::OptionsData { tmpl, records, padding }, v9::FlowSetBody::OptionsData(gd)) => {
                st.fs("v9-options-data");
                let u = format!("{}/options-data", unit);
                // the result type holds one record; the listed finding D4 is that later records
                // are reported as padding. Model: first record decoded, rest + padding = padding.
                let (es, eo) = &records[0];
                want!(&u, "scope_fields.len", gd.scope_fields.len(), es.len());
                want!(&u, "options_fields.len", gd.options_fields.len(), eo.len());
                for (i, (g1, e1)) in gd.scope_fields.iter().zip(es.iter()).enumerate() {
                    let (ty, b) = scope_bytes(g1);
                    want!(&u, format!("scope[{}].type", i), ty, tmpl.scope[i].0);
                    want!(&u, format!("scope[{}].bytes", i), b, e1);
                    st.cell(DT::Bytes, e1.len());
                }
                for (i, (g1, e1)) in gd.options_fields.iter().zip(eo.iter()).enumerate() {
                    want!(&u, format!("option[{}].field_type", i), g1.field_type, V9Field::from(tmpl.opts[i].0));
                    want!(&u, format!("option[{}].bytes", i), &g1.field_value, e1);
                    st.cell(DT::Bytes, e1.len());
                }
                st.records += 1;
                if records.len() == 1 {
                    want!(&format!("{}/padding", u), "padding", &gd.padding, padding);
                } else {
                    let mut model = vec![];
                    for (s, o) in records.iter().skip(1) {
                        for f in s.iter().chain(o.iter()) {
                            model.extend_from_slice(f);
                        }
                    }
                    model.extend_from_slice(padding);
                    if gd.padding == model {
                        *st.findings.entry("C04|v9|options-data|multi-record|model=first-record-only".to_string()).or_insert(0) += 1;
                    } else {
                        return Err(div(&u, "multi-record", format!("options data with {} records: padding {} does not match the first-record-only model", records.len(), crate::util::hex(&gd.padding))));
                    }
                }
            }
            (_, gb) => {
                let kind = match gb {
                    v9::FlowSetBody::Template(_) => "Template",
                    v9::FlowSetBody::OptionsTemplate(_) => "OptionsTemplate",
                    v9::FlowSetBody::Data(_) => "Data",
                    v9::FlowSetBody::OptionsData(_) => "OptionsData",
                };
                return Err(div(&unit, "kind", format!("decoded as {} but sent as id {}", kind, e.id())));
            }
        }
    }
    Ok(())
}

fn ix_specs_eq(unit: &str, got: &[ix::TemplateField], exp: &[IpfixSpec]) -> Result<(), Div> {
    want!(unit, "fields.len", got.len(), exp.len());
    for (i, (g, e)) in got.iter().zip(exp.iter()).enumerate() {
        want!(unit, format!("field[{}].type", i), g.field_type_number, e.type_num);
        want!(unit, format!("field[{}].length", i), g.field_length, e.len);
        want!(unit, format!("field[{}].enterprise", i), g.enterprise_number, e.enterprise);
        let ft = if e.enterprise.is_some() { IPFixField::Enterprise } else { IPFixField::from(e.type_num) };
        want!(unit, format!("field[{}].field_type", i), g.field_type, ft);
    }
    Ok(())
}

pub fn check_ipfix_data(u: &str, fields: &[IpfixSpec], records: &[Vec<Cell>], padding: &[u8], gfields: &[BTreeMap<usize, (IPFixField, FieldValue)>], gpadding: &[u8], st: &mut Stats) -> Result<(), Div> {
    // flatten: the library emits one single-entry map per field
    let mut flat: Vec<(usize, &IPFixField, &FieldValue)> = vec![];
    for m in gfields {
        for (k, (f, v)) in m.iter() {
            flat.push((*k, f, v));
        }
    }
    let want_cells: usize = records.iter().map(|r| r.len()).sum();
    if flat.len() != want_cells {
        let nf = fields.len().max(1);
        return Err(div(u, "record-count", format!("got {} cells ({} records) want {} cells ({} records)", flat.len(), flat.len() / nf, want_cells, records.len())));
    }
    let mut p = 0;
    for (ri, r) in records.iter().enumerate() {
        st.records += 1;
        for (ci, c) in r.iter().enumerate() {
            let (k, gf, gv) = flat[p];
            p += 1;
            let s = &fields[ci];
            let uu = format!("{}/record[{}]/cell[{}]", u, ri, ci);
            want!(&uu, "index", k, ci);
            let (ft, dt) = if s.enterprise.is_some() { (IPFixField::Enterprise, DT::Bytes) } else { (IPFixField::from(s.type_num), ipfix_dt(s.type_num)) };
            want!(&uu, "field_type", *gf, ft);
            st.cell(dt, c.bytes.len());
            if c.varlen {
                if c.long_prefix || c.bytes.len() >= 255 {
                    st.varlen_long += 1
                } else {
                    st.varlen_short += 1
                }
            }
            if s.enterprise.is_some() {
                st.enterprise_cells += 1;
            }
            match compare(dt, &c.bytes, gv) {
                Cmp::Ok => {}
                Cmp::OkNarrowed => {
                    st.narrowed += 1;
                    *st.findings.entry("C05|ipfix|cell|signed|wide|model=narrowed-to-i32".to_string()).or_insert(0) += 1;
                }
                Cmp::Skip => st.skipped_cells += 1,
                Cmp::Bad(d) => {
                    let vl = if c.varlen { "|varlen" } else { "" };
                    return Err(div(&uu, &format!("cell|{}|w{}{}", dt.name(), c.bytes.len().min(65), vl), format!("type {} bytes {}: {}", s.type_num, crate::util::hex(&c.bytes[..c.bytes.len().min(40)]), d)));
                }
            }
        }
    }
    *st.paddings.entry(padding.len()).or_insert(0) += 1;
    if gpadding != padding {
        return Err(div(&format!("{}/padding", u), "value", format!("padding: got {} want {}", crate::util::hex(gpadding), crate::util::hex(padding))));
    }
    Ok(())
}

/// Compare a decoded IPFIX message with the AST it was encoded from. `sets_expected` lets the
/// caller state that only a prefix of the sets is expected (withheld-template streams).
pub fn check_ipfix(ast: &IpfixMsg, got: &ix::IPFix, st: &mut Stats) -> Result<(), Div> {
    let wire_len = ast.wire().len();
    want!("ipfix/header", "version", got.header.version, 10u16);
    want!("ipfix/header", "length", got.header.length as usize, wire_len);
    want!("ipfix/header", "export_time", got.header.export_time, ast.export_time);
    want!("ipfix/header", "sequence_number", got.header.sequence_number, ast.seq);
    want!("ipfix/header", "observation_domain_id", got.header.observation_domain_id, ast.domain);
    if got.flowsets.len() != ast.sets.len() {
        return Err(div("ipfix/sets", "count", format!("got {} sets want {}", got.flowsets.len(), ast.sets.len())));
    }
    for (si, (g, e)) in got.flowsets.iter().zip(ast.sets.iter()).enumerate() {
        let unit = format!("ipfix/set[{}]", si);
        want!(&unit, "set_id", g.header.header_id, e.id());
        want!(&unit, "length", g.header.length as usize, e.body().len() + 4);
        match (e, &g.body) {
            (IpfixSet::Template { records, padding }, ix::FlowSetBody::Template(gt)) => {
                st.fs("ipfix-template");
                if records.len() != 1 {
                    return Err(div(&unit, "multi-template", "caller must use the multi-template model".to_string()));
                }
                let e1 = &records[0];
                let u = format!("{}/template", unit);
                want!(&u, "template_id", gt.template_id, e1.id);
                want!(&u, "field_count", gt.field_count as usize, e1.fields.len());
                ix_specs_eq(&u, &gt.fields, &e1.fields)?;
                want!(&format!("{}/padding", u), "padding", &gt.padding, padding);
                st.templates += 1;
            }
            (IpfixSet::OptionsTemplate { records, padding }, ix::FlowSetBody::OptionsTemplate(gt)) => {
                st.fs("ipfix-options-template");
                if records.len() != 1 {
                    return Err(div(&unit, "multi-template", "caller must use the multi-template model".to_string()));
                }
                let e1 = &records[0];
                let u = format!("{}/options-template", unit);
                want!(&u, "template_id", gt.template_id, e1.id);
                want!(&u, "field_count", gt.field_count as usize, e1.fields.len());
                want!(&u, "scope_field_count", gt.scope_field_count, e1.scope_count);
                ix_specs_eq(&u, &gt.fields, &e1.fields)?;
                want!(&format!("{}/padding", u), "padding", &gt.padding, padding);
                st.templates += 1;
            }
            (IpfixSet::Data { options: false, fields, records, padding, .. }, ix::FlowSetBody::Data(gd)) => {
                st.fs("ipfix-data");
                check_ipfix_data(&format!("{}/data", unit), fields, records, padding, &gd.fields, &gd.padding, st)?;
            }
            (IpfixSet::Data { options: true, fields, records, padding, .. }, ix::FlowSetBody::OptionsData(gd)) => {
                st.fs("ipfix-options-data");
                check_ipfix_data(&format!("{}/options-data", unit), fields, records, padding, &gd.fields, &gd.padding, st)?;
            }
            (_, gb) => {
                let kind = match gb {
                    ix::FlowSetBody::Template(_) => "Template",
                    ix::FlowSetBody::OptionsTemplate(_) => "OptionsTemplate",
                    ix::FlowSetBody::Data(_) => "Data",
                    ix::FlowSetBody::OptionsData(_) => "OptionsData",
                };
                return Err(div(&unit, "kind", format!("decoded as {} but sent as set id {}", kind, e.id())));
            }
        }
    }
    Ok(())
}
