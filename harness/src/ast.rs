//! Abstract export streams: the exporter-side ground truth. The AST knows which bytes were
//! allotted to which field of which record under which template; `encode` turns it into wire
//! bytes per RFC 3954 / RFC 7011 / the Cisco V5/V7 layouts. It shares no code with the library.

#[derive(Clone, Debug, PartialEq)]
pub struct V9Tmpl {
    pub id: u16,
    pub fields: Vec<(u16, u16)>, // (type number, length)
}
impl V9Tmpl {
    pub fn rec_size(&self) -> usize {
        self.fields.iter().map(|f| f.1 as usize).sum()
    }
}

#[derive(Clone, Debug, PartialEq)]
pub struct V9OptTmpl {
    pub id: u16,
    pub scope: Vec<(u16, u16)>, // (scope type 1..5, length)
    pub opts: Vec<(u16, u16)>,  // (type number, length)
}
impl V9OptTmpl {
    pub fn rec_size(&self) -> usize {
        self.scope.iter().chain(self.opts.iter()).map(|f| f.1 as usize).sum()
    }
}

#[derive(Clone, Debug, PartialEq)]
pub enum V9FlowSet {
    Template { templates: Vec<V9Tmpl>, padding: Vec<u8> },
    OptionsTemplate { templates: Vec<V9OptTmpl>, padding: Vec<u8> },
    /// records[r][i] = raw bytes of field i of record r
    Data { tmpl: V9Tmpl, records: Vec<Vec<Vec<u8>>>, padding: Vec<u8> },
    /// records[r] = (scope field bytes, option field bytes)
    OptionsData { tmpl: V9OptTmpl, records: Vec<(Vec<Vec<u8>>, Vec<Vec<u8>>)>, padding: Vec<u8> },
    /// a data flowset for an id the exporter never defined (withheld template); opaque body
    Orphan { id: u16, body: Vec<u8> },
}

#[derive(Clone, Debug, PartialEq)]
pub struct V9Pkt {
    pub count: u16,
    pub sys_up_time: u32,
    pub unix_secs: u32,
    pub seq: u32,
    pub source_id: u32,
    pub flowsets: Vec<V9FlowSet>,
}

#[derive(Clone, Debug, PartialEq)]
pub struct IpfixSpec {
    pub type_num: u16, // without the enterprise bit
    pub len: u16,      // 65535 = variable length
    pub enterprise: Option<u32>,
}

#[derive(Clone, Debug, PartialEq)]
pub struct IpfixTmpl {
    pub id: u16,
    pub fields: Vec<IpfixSpec>,
}
#[derive(Clone, Debug, PartialEq)]
pub struct IpfixOptTmpl {
    pub id: u16,
    pub scope_count: u16,
    pub fields: Vec<IpfixSpec>,
}

/// One field value on the wire: content bytes plus, for variable-length fields, the prefix form.
#[derive(Clone, Debug, PartialEq)]
pub struct Cell {
    pub bytes: Vec<u8>,
    pub varlen: bool,
    pub long_prefix: bool,
}

#[derive(Clone, Debug, PartialEq)]
pub enum IpfixSet {
    Template { records: Vec<IpfixTmpl>, padding: Vec<u8> },
    OptionsTemplate { records: Vec<IpfixOptTmpl>, padding: Vec<u8> },
    Data { id: u16, options: bool, fields: Vec<IpfixSpec>, records: Vec<Vec<Cell>>, padding: Vec<u8> },
    Orphan { id: u16, body: Vec<u8> },
}

#[derive(Clone, Debug, PartialEq)]
pub struct IpfixMsg {
    pub export_time: u32,
    pub seq: u32,
    pub domain: u32,
    pub sets: Vec<IpfixSet>,
}

/// V5/V7: header 24 bytes (with version and count in place) + n records of 48/52 raw bytes.
#[derive(Clone, Debug, PartialEq)]
pub struct FixedPkt {
    pub version: u16, // 5 or 7
    pub header: [u8; 24],
    pub records: Vec<Vec<u8>>,
}

#[derive(Clone, Debug, PartialEq)]
pub enum Pkt {
    Fixed(FixedPkt),
    V9(V9Pkt),
    Ipfix(IpfixMsg),
}

fn p16(o: &mut Vec<u8>, v: u16) {
    o.extend_from_slice(&v.to_be_bytes());
}
fn p32(o: &mut Vec<u8>, v: u32) {
    o.extend_from_slice(&v.to_be_bytes());
}

impl V9Tmpl {
    pub fn wire(&self) -> Vec<u8> {
        let mut o = vec![];
        p16(&mut o, self.id);
        p16(&mut o, self.fields.len() as u16);
        for (t, l) in &self.fields {
            p16(&mut o, *t);
            p16(&mut o, *l);
        }
        o
    }
}
impl V9OptTmpl {
    pub fn wire(&self) -> Vec<u8> {
        let mut o = vec![];
        p16(&mut o, self.id);
        p16(&mut o, (self.scope.len() * 4) as u16);
        p16(&mut o, (self.opts.len() * 4) as u16);
        for (t, l) in self.scope.iter().chain(self.opts.iter()) {
            p16(&mut o, *t);
            p16(&mut o, *l);
        }
        o
    }
}

impl V9FlowSet {
    pub fn id(&self) -> u16 {
        match self {
            V9FlowSet::Template { .. } => 0,
            V9FlowSet::OptionsTemplate { .. } => 1,
            V9FlowSet::Data { tmpl, .. } => tmpl.id,
            V9FlowSet::OptionsData { tmpl, .. } => tmpl.id,
            V9FlowSet::Orphan { id, .. } => *id,
        }
    }
    pub fn body(&self) -> Vec<u8> {
        let mut o = vec![];
        match self {
            V9FlowSet::Template { templates, padding } => {
                for t in templates {
                    o.extend(t.wire());
                }
                o.extend_from_slice(padding);
            }
            V9FlowSet::OptionsTemplate { templates, padding } => {
                for t in templates {
                    o.extend(t.wire());
                }
                o.extend_from_slice(padding);
            }
            V9FlowSet::Data { records, padding, .. } => {
                for r in records {
                    for f in r {
                        o.extend_from_slice(f);
                    }
                }
                o.extend_from_slice(padding);
            }
            V9FlowSet::OptionsData { records, padding, .. } => {
                for (s, op) in records {
                    for f in s.iter().chain(op.iter()) {
                        o.extend_from_slice(f);
                    }
                }
                o.extend_from_slice(padding);
            }
            V9FlowSet::Orphan { body, .. } => o.extend_from_slice(body),
        }
        o
    }
    pub fn wire(&self) -> Vec<u8> {
        let b = self.body();
        let mut o = vec![];
        p16(&mut o, self.id());
        p16(&mut o, (b.len() + 4) as u16);
        o.extend(b);
        o
    }
    /// number of records per RFC 3954 (template records + data records)
    pub fn rfc_records(&self) -> usize {
        match self {
            V9FlowSet::Template { templates, .. } => templates.len(),
            V9FlowSet::OptionsTemplate { templates, .. } => templates.len(),
            V9FlowSet::Data { records, .. } => records.len(),
            V9FlowSet::OptionsData { records, .. } => records.len(),
            V9FlowSet::Orphan { .. } => 1,
        }
    }
}

impl V9Pkt {
    pub fn wire(&self) -> Vec<u8> {
        let mut o = vec![];
        p16(&mut o, 9);
        p16(&mut o, self.count);
        p32(&mut o, self.sys_up_time);
        p32(&mut o, self.unix_secs);
        p32(&mut o, self.seq);
        p32(&mut o, self.source_id);
        for f in &self.flowsets {
            o.extend(f.wire());
        }
        o
    }
}

impl IpfixSpec {
    pub fn wire(&self) -> Vec<u8> {
        let mut o = vec![];
        match self.enterprise {
            Some(e) => {
                p16(&mut o, self.type_num | 0x8000);
                p16(&mut o, self.len);
                p32(&mut o, e);
            }
            None => {
                p16(&mut o, self.type_num);
                p16(&mut o, self.len);
            }
        }
        o
    }
    /// smallest encoding of one value of this field
    pub fn min_size(&self) -> usize {
        if self.len == 65535 {
            1
        } else {
            self.len as usize
        }
    }
}
impl IpfixTmpl {
    pub fn wire(&self) -> Vec<u8> {
        let mut o = vec![];
        p16(&mut o, self.id);
        p16(&mut o, self.fields.len() as u16);
        for f in &self.fields {
            o.extend(f.wire());
        }
        o
    }
}
impl IpfixOptTmpl {
    pub fn wire(&self) -> Vec<u8> {
        let mut o = vec![];
        p16(&mut o, self.id);
        p16(&mut o, self.fields.len() as u16);
        p16(&mut o, self.scope_count);
        for f in &self.fields {
            o.extend(f.wire());
        }
        o
    }
}
impl Cell {
    pub fn fixed(bytes: Vec<u8>) -> Cell {
        Cell { bytes, varlen: false, long_prefix: false }
    }
    pub fn wire(&self) -> Vec<u8> {
        let mut o = vec![];
        if self.varlen {
            if self.long_prefix || self.bytes.len() >= 255 {
                o.push(255);
                p16(&mut o, self.bytes.len() as u16);
            } else {
                o.push(self.bytes.len() as u8);
            }
        }
        o.extend_from_slice(&self.bytes);
        o
    }
}
impl IpfixSet {
    pub fn id(&self) -> u16 {
        match self {
            IpfixSet::Template { .. } => 2,
            IpfixSet::OptionsTemplate { .. } => 3,
            IpfixSet::Data { id, .. } => *id,
            IpfixSet::Orphan { id, .. } => *id,
        }
    }
    pub fn body(&self) -> Vec<u8> {
        let mut o = vec![];
        match self {
            IpfixSet::Template { records, padding } => {
                for r in records {
                    o.extend(r.wire());
                }
                o.extend_from_slice(padding);
            }
            IpfixSet::OptionsTemplate { records, padding } => {
                for r in records {
                    o.extend(r.wire());
                }
                o.extend_from_slice(padding);
            }
            IpfixSet::Data { records, padding, .. } => {
                for r in records {
                    for c in r {
                        o.extend(c.wire());
                    }
                }
                o.extend_from_slice(padding);
            }
            IpfixSet::Orphan { body, .. } => o.extend_from_slice(body),
        }
        o
    }
    pub fn wire(&self) -> Vec<u8> {
        let b = self.body();
        let mut o = vec![];
        p16(&mut o, self.id());
        p16(&mut o, (b.len() + 4) as u16);
        o.extend(b);
        o
    }
}
impl IpfixMsg {
    pub fn wire(&self) -> Vec<u8> {
        let mut body = vec![];
        for s in &self.sets {
            body.extend(s.wire());
        }
        let mut o = vec![];
        p16(&mut o, 10);
        p16(&mut o, (body.len() + 16) as u16);
        p32(&mut o, self.export_time);
        p32(&mut o, self.seq);
        p32(&mut o, self.domain);
        o.extend(body);
        o
    }
}
impl FixedPkt {
    pub fn rec_len(&self) -> usize {
        if self.version == 5 {
            48
        } else {
            52
        }
    }
    pub fn wire(&self) -> Vec<u8> {
        let mut o = self.header.to_vec();
        for r in &self.records {
            o.extend_from_slice(r);
        }
        o
    }
}
impl Pkt {
    pub fn wire(&self) -> Vec<u8> {
        match self {
            Pkt::Fixed(p) => p.wire(),
            Pkt::V9(p) => p.wire(),
            Pkt::Ipfix(p) => p.wire(),
        }
    }
    pub fn version(&self) -> u16 {
        match self {
            Pkt::Fixed(p) => p.version,
            Pkt::V9(_) => 9,
            Pkt::Ipfix(_) => 10,
        }
    }
}
