//! nfverif: runtime-monitoring harness for netflow_parser (see /verif/DESIGN.md).
//!   nfverif worker <PROP> --seed S --shard I --nshards N --cases K [--start A] [--only IDX]
//!                         [--tier quick|thorough] [--progress FILE] [--transcript FILE]
//!   nfverif replay <file.json>       re-execute the raw operations of a replay file
//!   nfverif ircount <family>         run every doubling member of a family through `nfverif_measured` (for callgrind)
//!   nfverif families | famops <family> <k>   list the doubling families / print one member as a replay object
//!   nfverif selftest                 golden checks of the generators/encoders

mod alloc;
mod ast;
mod corpus;
mod ctx;
mod gen_conf;
mod gen_host;
mod golden;
mod interp;
mod jsonr;
mod observe;
mod props;
mod rng;
mod rt;
mod tables;
mod truth;
mod twins;
mod util;
mod worker;

#[global_allocator]
static GLOBAL: alloc::Counting = alloc::Counting;

fn main() {
    let args: Vec<String> = std::env::args().collect();
    if args.len() < 2 {
        eprintln!("usage: nfverif worker|replay|selftest ...");
        std::process::exit(2);
    }
    match args[1].as_str() {
        "worker" => worker::main(&args[2..]),
        "replay" => worker::replay(&args[2..]),
        "ircount" => props::cost::ircount(&args[2..]),
        "families" => props::cost::families_json(),
        "famops" => props::cost::famops(&args[2..]),
        "selftest" => {
            let n = golden::selftest();
            match twins::selftest() {
                Ok(s) => eprintln!("fingerprint twins: {}", s),
                Err(e) => {
                    eprintln!("fingerprint twins: {}", e);
                    std::process::exit(3);
                }
            }
            println!("{{\"selftest\":\"ok\",\"checks\":{}}}", n);
        }
        _ => {
            eprintln!("unknown subcommand");
            std::process::exit(2);
        }
    }
}
