//! C01 - parsing untrusted bytes never crashes, aborts, overflows the stack or hangs.
//! M-proc (in-process half): every history runs on a real 2 MiB thread; panics are caught and
//! attributed; stack overflow / abort / fatal signals kill this worker and are seen by the
//! supervisor through the exit status and the progress file.

use super::common::{hostile_history, make_parsers, History};
use crate::ctx::Sut;
use crate::observe::{kind, pipeline, PipeStats};
use crate::truth::div;
use crate::worker::W;
use serde_json::json;
use std::collections::BTreeMap;
use std::panic::{catch_unwind, AssertUnwindSafe};

pub struct ExecOut {
    pub sut_replay: serde_json::Value,
    pub calls: u64,
    pub bytes: u64,
    pub kinds: BTreeMap<&'static str, u64>,
    pub shape: String,
    pub ps: PipeStats,
    pub max_stack: usize,
    pub panic: Option<(String, String, &'static str)>,
    pub nonempty: bool,
}

pub fn exec(h: &History) -> ExecOut {
    let mut sut = Sut::new(0);
    sut.parsers = make_parsers(h);
    let mut out = ExecOut { sut_replay: json!(null), calls: 0, bytes: 0, kinds: BTreeMap::new(), shape: String::new(), ps: PipeStats::default(), max_stack: 0, panic: None, nonempty: false };
    out.shape.push_str(h.family);
    for a in &h.parsers {
        out.shape.push_str(&a.shape());
    }
    for (i, (p, b)) in h.ops.iter().enumerate() {
        h.reconfigure(i, &mut sut);
        let scope = crate::alloc::begin();
        let r = catch_unwind(AssertUnwindSafe(|| sut.parse(*p, b)));
        let m = crate::alloc::end(scope);
        out.max_stack = out.max_stack.max(m.stack_used);
        let res = match r {
            Ok(r) => r,
            Err(_) => {
                let (loc, msg) = crate::util::take_panic().unwrap_or_default();
                out.panic = Some((loc, msg, "parse_bytes"));
                break;
            }
        };
        out.shape.push('|');
        for e in &res {
            *out.kinds.entry(kind(e)).or_insert(0) += 1;
            out.shape.push_str(kind(e));
            out.shape.push(',');
            out.nonempty = true;
        }
        let mut ps = PipeStats::default();
        let r2 = catch_unwind(AssertUnwindSafe(|| pipeline(&res, &mut ps)));
        if r2.is_err() {
            let (loc, msg) = crate::util::take_panic().unwrap_or_default();
            out.panic = Some((loc, msg, "pipeline"));
            break;
        }
        out.ps.exports_ok += ps.exports_ok;
        out.ps.exports_err += ps.exports_err;
        out.ps.commons += ps.commons;
        out.ps.common_flows += ps.common_flows;
        out.ps.json_bytes += ps.json_bytes;
        if i % 4 == 3 {
            // the flattening helper on a parser in the same state
            let mut c = crate::observe::clone_parser(&sut.parsers[*p]);
            let r3 = catch_unwind(AssertUnwindSafe(|| c.parse_bytes_as_netflow_common_flowsets(b).len()));
            if r3.is_err() {
                let (loc, msg) = crate::util::take_panic().unwrap_or_default();
                out.panic = Some((loc, msg, "parse_bytes_as_netflow_common_flowsets"));
                break;
            }
        }
        drop(res);
    }
    out.calls = sut.calls;
    out.bytes = sut.bytes;
    out.sut_replay = sut.replay_json();
    out
}

fn run_history(w: &mut W, h: History) {
    let fam = h.family;
    let hh = h.clone();
    // 2 MiB decides the property; sanitizer builds (inflated frames) pass --stack-mb and never decide stack depth
    let handle = std::thread::Builder::new().stack_size(w.stack_mb << 20).spawn(move || exec(&hh)).expect("spawn");
    let out = match handle.join() {
        Ok(o) => o,
        Err(_) => {
            // a panic that escaped catch_unwind inside the thread
            let (loc, msg) = crate::util::take_panic().unwrap_or_default();
            let d = div("process", "panic-escaped", format!("{} {}", loc, msg));
            w.rep.violation(format!("C01|panic|{}|{}", loc, crate::util::msg_class(&msg)), &d, json!({"ops": h.ops.iter().map(|(p,b)| json!({"parser":p,"hex":crate::util::hex(b)})).collect::<Vec<_>>(), "parsers": h.parsers.iter().map(|a| a.shape()).collect::<Vec<_>>()}));
            return;
        }
    };
    w.rep.count("calls", out.calls);
    w.rep.count("bytes", out.bytes);
    w.rep.count(&format!("family.{}", fam), 1);
    for (k, v) in &out.kinds {
        w.rep.count(&format!("elements.{}", k), *v);
    }
    w.rep.count("pipeline.exports_ok", out.ps.exports_ok);
    w.rep.count("pipeline.exports_err", out.ps.exports_err);
    w.rep.count("pipeline.common_views", out.ps.commons);
    w.rep.count("pipeline.common_flows", out.ps.common_flows);
    w.rep.count("pipeline.json_bytes", out.ps.json_bytes);
    w.rep.max("max_stack_bytes", out.max_stack as f64);
    if out.nonempty {
        w.rep.shape(&out.shape);
    } else {
        w.rep.trivial += 1;
    }
    if let Some((loc, msg, stage)) = &out.panic {
        let d = div(stage, "panic", format!("{} {}", loc, msg));
        w.rep.violation(format!("C01|panic|{}|{}|{}", stage, loc, crate::util::msg_class(msg)), &d, out.sut_replay.clone());
    }
    if w.rep.samples.len() < 3 && out.nonempty {
        w.rep.sample(json!({"family": fam, "shape": out.shape, "replay": out.sut_replay}));
    }
}

pub fn run(w: &mut W) {
    // G-ext: every extreme once per run (spread over the shards), each on its own 2 MiB thread
    let ext = crate::gen_host::extremes();
    for (j, (name, bufs)) in ext.iter().enumerate() {
        let idx = crate::worker::ONEOFF + j as u64;
        if !w.oneoff(j as u64) {
            continue;
        }
        let _ = w.begin_case(idx, name);
        let h = History { family: "ext", parsers: vec![super::common::Allowed::Default], ops: bufs.iter().map(|b| (0usize, b.clone())).collect(), reconf: vec![] };
        w.rep.count(&format!("extreme.{}", name), 1);
        run_history(w, h);
    }
    // id-space histories: thousands of live template ids per map, data for each, then templates of
    // the other kind (crash / overflow / hang monitors only; the oracles run under C04-C06)
    let base = ext.len() as u64;
    for k in 0..4u64 {
        if !w.oneoff(base + k) {
            continue;
        }
        let _ = w.begin_case(crate::worker::ONEOFF + base + k, "id-space");
        let (name, bufs) = super::idspace::histories(w).swap_remove(k as usize);
        let h = History { family: "idspace", parsers: vec![super::common::Allowed::Default], ops: bufs.into_iter().map(|b| (0usize, b)).collect(), reconf: vec![] };
        w.rep.count(&format!("idspace.{}", name), 1);
        run_history(w, h);
    }
    for idx in w.indices() {
        let mut rng = w.begin_case(idx, "history");
        let h = hostile_history(&mut rng, &w.pools, &w.corpus);
        run_history(w, h);
    }
}


/// M-ub under an interpreter (Miri): tiny hostile histories through the whole pipeline, no
/// threads, no corpus. Any Miri diagnostic aborts the process and is seen by the supervisor.
pub fn run_small(w: &mut W) {
    for idx in w.indices() {
        let mut rng = w.begin_case(idx, "small-history");
        let mut h = crate::gen_host::Hostile::new();
        h.small = true;
        let n = 2 + rng.usize(3);
        let ops: Vec<(usize, Vec<u8>)> = (0..n).map(|_| (0usize, h.packet(&mut rng, &w.pools))).collect();
        // (no 65 536-entry allowed set here: building it costs the interpreter half a minute)
        let allowed = match super::common::Allowed::gen(&mut rng) {
            super::common::Allowed::All => super::common::Allowed::Set(vec![5, 7, 9, 10, 11]),
            a => a,
        };
        let hist = History { family: "small", parsers: vec![allowed], ops, reconf: vec![] };
        let out = exec(&hist);
        w.rep.count("calls", out.calls);
        w.rep.count("bytes", out.bytes);
        for (k, v) in &out.kinds {
            w.rep.count(&format!("elements.{}", k), *v);
        }
        w.rep.count("pipeline.exports_ok", out.ps.exports_ok);
        w.rep.count("pipeline.json_bytes", out.ps.json_bytes);
        if out.nonempty {
            w.rep.shape(&out.shape);
        } else {
            w.rep.trivial += 1;
        }
        if let Some((loc, msg, stage)) = &out.panic {
            let d = div(stage, "panic", format!("{} {}", loc, msg));
            w.rep.violation(format!("C01|panic|{}|{}|{}", stage, loc, crate::util::msg_class(msg)), &d, out.sut_replay.clone());
        }
    }
}
