//! C13 - the common-flow view is a faithful projection (M-common).

use super::hist::seq_packet;
use crate::ast::*;
use crate::ctx::{sig, Sut};
use crate::gen_conf::{Cfg, Exporter};
use crate::interp::mac_text;
use crate::observe::{clone_parser, kind};
use crate::tables::{be, protocol_name_ok};
use crate::truth::{div, Div};
use crate::worker::W;
use netflow_parser::netflow_common::{NetflowCommon, NetflowCommonFlowSet};
use netflow_parser::NetflowPacket;
use serde_json::json;
use std::net::{IpAddr, Ipv4Addr, Ipv6Addr};

#[derive(Debug, Default, Clone, PartialEq)]
struct ExpFlow {
    src: Option<IpAddr>,
    dst: Option<IpAddr>,
    /// dual-stack records carry an IPv4 and an IPv6 address for one side: either is "the
    /// corresponding decoded field"
    src_alt: Option<IpAddr>,
    dst_alt: Option<IpAddr>,
    sport: Option<u16>,
    dport: Option<u16>,
    proto: Option<u8>,
    first: Option<u32>,
    last: Option<u32>,
    smac: Option<String>,
    dmac: Option<String>,
}

fn ip_of(b: &[u8]) -> Option<IpAddr> {
    match b.len() {
        4 => Some(IpAddr::V4(Ipv4Addr::new(b[0], b[1], b[2], b[3]))),
        16 => {
            let mut a = [0u8; 16];
            a.copy_from_slice(b);
            Some(IpAddr::V6(Ipv6Addr::from(a)))
        }
        _ => None,
    }
}

/// Independent projected-field spec (README field list): type numbers are the same in V9 and IPFIX.
fn project(fields: &[(u16, &[u8])]) -> ExpFlow {
    let get = |t: u16| fields.iter().find(|f| f.0 == t).map(|f| f.1);
    ExpFlow {
        src: get(8).or(get(27)).and_then(ip_of),
        dst: get(12).or(get(28)).and_then(ip_of),
        src_alt: if get(8).is_some() { get(27).and_then(ip_of) } else { None },
        dst_alt: if get(12).is_some() { get(28).and_then(ip_of) } else { None },
        sport: get(7).map(|b| be(b) as u16),
        dport: get(11).map(|b| be(b) as u16),
        proto: get(4).map(|b| b[0]),
        first: get(22).map(|b| be(b) as u32),
        last: get(21).map(|b| be(b) as u32),
        smac: get(56).map(mac_text),
        dmac: get(80).map(mac_text),
    }
}

enum Proto {
    Fixed,
    V9,
    Ipfix,
}

fn cmp_flow(unit: &str, which: Proto, e: &ExpFlow, g: &NetflowCommonFlowSet, findings: &mut Vec<String>, stats: &mut [u64; 20]) -> Result<(), Div> {
    macro_rules! f {
        ($i:expr, $name:expr, $got:expr, $exp:expr) => {
            stats[$i * 2 + if $exp.is_some() { 0 } else { 1 }] += 1;
            if $got != $exp {
                return Err(div(&format!("{}/{}", unit, $name), "value", format!("{}: got {:?} want {:?}", $name, $got, $exp)));
            }
        };
    }
    if e.src_alt.is_some() && g.src_addr == e.src_alt {
        stats[0] += 1;
    } else {
        f!(0, "src_addr", g.src_addr, e.src);
    }
    if e.dst_alt.is_some() && g.dst_addr == e.dst_alt {
        stats[2] += 1;
    } else {
        f!(1, "dst_addr", g.dst_addr, e.dst);
    }
    f!(2, "src_port", g.src_port, e.sport);
    f!(3, "dst_port", g.dst_port, e.dport);
    f!(5, "first_seen", g.first_seen, e.first);
    f!(6, "last_seen", g.last_seen, e.last);
    f!(7, "src_mac", g.src_mac, e.smac);
    f!(8, "dst_mac", g.dst_mac, e.dmac);
    // protocol number and name
    stats[4 * 2 + if e.proto.is_some() { 0 } else { 1 }] += 1;
    match (e.proto, g.protocol_number, &g.protocol_type) {
        (None, None, None) => {}
        (Some(n), Some(gn), Some(gt)) => {
            let name = format!("{:?}", gt);
            if gn != n {
                if matches!(which, Proto::V9) && (145..=254).contains(&n) && gn == 255 {
                    findings.push("C13|v9|protocol_number|unassigned|model=255".into());
                } else {
                    return Err(div(&format!("{}/protocol_number", unit), "value", format!("protocol_number: got {} want {}", gn, n)));
                }
            }
            if !protocol_name_ok(n, &name) {
                let listed = matches!(which, Proto::Ipfix) && ((n == 0 && name == "Unknown") || (n == 1 && name == "Hopopt") || (n == 144 && name == "Reserved"));
                if listed {
                    findings.push(format!("C13|ipfix|protocol_type|n={}|got={}", n, name));
                } else {
                    return Err(div(&format!("{}/protocol_type", unit), &format!("protocol_name|n={}", n), format!("protocol {} named {}", n, name)));
                }
            }
        }
        (e, gn, gt) => return Err(div(&format!("{}/protocol", unit), "presence", format!("protocol field present={:?} but protocol_number={:?} protocol_type={:?}", e, gn, gt))),
    }
    Ok(())
}

fn expect_flows(p: &Pkt) -> (u16, u32, Vec<ExpFlow>) {
    match p {
        Pkt::Fixed(f) => {
            let ts = be(&f.header[4..8]) as u32;
            let flows = f
                .records
                .iter()
                .map(|r| ExpFlow {
                    src: ip_of(&r[0..4]),
                    dst: ip_of(&r[4..8]),
                    sport: Some(be(&r[32..34]) as u16),
                    dport: Some(be(&r[34..36]) as u16),
                    proto: Some(r[38]),
                    first: Some(be(&r[24..28]) as u32),
                    last: Some(be(&r[28..32]) as u32),
                    smac: None,
                    dmac: None,
                    src_alt: None,
                    dst_alt: None,
                })
                .collect();
            (f.version, ts, flows)
        }
        Pkt::V9(v) => {
            let mut flows = vec![];
            for fs in &v.flowsets {
                if let V9FlowSet::Data { tmpl, records, .. } = fs {
                    for r in records {
                        let fields: Vec<(u16, &[u8])> = tmpl.fields.iter().zip(r.iter()).map(|(f, b)| (f.0, b.as_slice())).collect();
                        flows.push(project(&fields));
                    }
                }
            }
            (9, v.sys_up_time, flows)
        }
        Pkt::Ipfix(m) => {
            let mut flows = vec![];
            for s in &m.sets {
                if let IpfixSet::Data { options: false, fields, records, .. } = s {
                    for r in records {
                        let fl: Vec<(u16, &[u8])> = fields.iter().zip(r.iter()).filter(|(f, _)| f.enterprise.is_none()).map(|(f, c)| (f.type_num, c.bytes.as_slice())).collect();
                        flows.push(project(&fl));
                    }
                }
            }
            (10, m.export_time, flows)
        }
    }
}

fn check_common(p: &Pkt, got: &NetflowPacket, c: &NetflowCommon, findings: &mut Vec<String>, stats: &mut [u64; 20]) -> Result<usize, Div> {
    let (ver, ts, flows) = expect_flows(p);
    let unit = format!("common/v{}", ver);
    if c.version != ver {
        return Err(div(&format!("{}/version", unit), "value", format!("version {} want {}", c.version, ver)));
    }
    if c.timestamp != ts {
        return Err(div(&format!("{}/timestamp", unit), "value", format!("timestamp {} want {}", c.timestamp, ts)));
    }
    if c.flowsets.len() != flows.len() {
        return Err(div(&format!("{}/flows", unit), "count", format!("{} common flows for {} flow records", c.flowsets.len(), flows.len())));
    }
    let which = match p {
        Pkt::Fixed(_) => Proto::Fixed,
        Pkt::V9(_) => Proto::V9,
        Pkt::Ipfix(_) => Proto::Ipfix,
    };
    for (i, (e, g)) in flows.iter().zip(c.flowsets.iter()).enumerate() {
        match (&which, got) {
            (Proto::Fixed, NetflowPacket::V5(v)) => {
                // name = the decoded record's own field
                let mut e2 = e.clone();
                e2.proto = None;
                let g2 = NetflowCommonFlowSet { protocol_number: None, protocol_type: None, ..clone_flow(g) };
                cmp_flow(&unit, Proto::Fixed, &e2, &g2, findings, stats)?;
                if g.protocol_number != e.proto || g.protocol_type != Some(v.flowsets[i].protocol_type) {
                    return Err(div(&format!("{}/protocol", unit), "value", format!("flow {}: protocol {:?}/{:?} but the decoded record has {}/{:?}", i, g.protocol_number, g.protocol_type, v.flowsets[i].protocol_number, v.flowsets[i].protocol_type)));
                }
            }
            (Proto::Fixed, NetflowPacket::V7(v)) => {
                let mut e2 = e.clone();
                e2.proto = None;
                let g2 = NetflowCommonFlowSet { protocol_number: None, protocol_type: None, ..clone_flow(g) };
                cmp_flow(&unit, Proto::Fixed, &e2, &g2, findings, stats)?;
                if g.protocol_number != e.proto || g.protocol_type != Some(v.flowsets[i].protocol_type) {
                    return Err(div(&format!("{}/protocol", unit), "value", format!("flow {}: protocol {:?}/{:?} but the decoded record has {}/{:?}", i, g.protocol_number, g.protocol_type, v.flowsets[i].protocol_number, v.flowsets[i].protocol_type)));
                }
            }
            _ => cmp_flow(&unit, if matches!(which, Proto::V9) { Proto::V9 } else { Proto::Ipfix }, e, g, findings, stats)?,
        }
    }
    Ok(flows.len())
}

fn clone_flow(g: &NetflowCommonFlowSet) -> NetflowCommonFlowSet {
    NetflowCommonFlowSet { src_addr: g.src_addr, dst_addr: g.dst_addr, src_port: g.src_port, dst_port: g.dst_port, protocol_number: g.protocol_number, protocol_type: g.protocol_type, first_seen: g.first_seen, last_seen: g.last_seen, src_mac: g.src_mac.clone(), dst_mac: g.dst_mac.clone() }
}

pub fn run_c13(w: &mut W) {
    let names = ["src_addr", "dst_addr", "src_port", "dst_port", "protocol", "first_seen", "last_seen", "src_mac", "dst_mac"];
    let mut stats = [0u64; 20];
    for idx in w.indices() {
        let mut rng = w.begin_case(idx, "projection");
        let mut cfg = Cfg::default();
        cfg.projected = true;
        cfg.dual_family = rng.chance(1, 4);
        cfg.count_is_flowsets = true;
        cfg.small_ids = rng.chance(1, 2);
        cfg.max_records = 5;
        cfg.max_fields = 10;
        cfg.options = rng.chance(1, 2);
        let mut ex = Exporter::new();
        let mut sut = Sut::new(1);
        let n = 2 + rng.usize(6);
        let mut findings: Vec<String> = vec![];
        let mut ok = true;
        let mut shape = String::new();
        let mut i = 0;
        while i < n && ok {
            // one packet per call, or a chained buffer of up to 3 packets
            let k = if rng.chance(1, 4) { 1 + rng.usize(3) } else { 1 };
            let pkts: Vec<Pkt> = (0..k).map(|_| seq_packet(&mut rng, &mut ex, &cfg, &w.pools)).collect();
            i += k;
            let mut buf = vec![];
            for p in &pkts {
                buf.extend(p.wire());
            }
            if buf.len() > 65535 {
                continue;
            }
            let mut helper = clone_parser(&sut.parsers[0]);
            let res = sut.parse(0, &buf);
            w.rep.count("packets", k as u64);
            let verdict: Result<(), Div> = (|| {
                if res.len() != k || res.iter().any(|e| e.is_error()) {
                    // decoding is C04/C05/C11's domain
                    return Err(div("common/decode", "foreign", format!("{:?}", res.iter().map(kind).collect::<Vec<_>>())));
                }
                let mut total = 0usize;
                let mut all_flows = String::new();
                for (p, e) in pkts.iter().zip(res.iter()) {
                    let c = e.as_netflow_common().map_err(|_| div("common/convert", "error", format!("as_netflow_common failed for a {} packet", kind(e))))?;
                    total += check_common(p, e, &c, &mut findings, &mut stats)?;
                    for f in &c.flowsets {
                        all_flows.push_str(&format!("{:?}", f));
                    }
                    w.rep.count("flows", c.flowsets.len() as u64);
                }
                // the flattening helper on a parser in the same state
                let hf = helper.parse_bytes_as_netflow_common_flowsets(&buf);
                let hs: String = hf.iter().map(|f| format!("{:?}", f)).collect();
                if hf.len() != total || hs != all_flows {
                    return Err(div("common/flattened", "differs", format!("parse_bytes_as_netflow_common_flowsets returns {} flows, the packets have {}", hf.len(), total)));
                }
                w.rep.count("flattened_checks", 1);
                Ok(())
            })();
            match verdict {
                Ok(()) => {
                    for p in &pkts {
                        shape.push_str(&match p {
                            Pkt::Fixed(f) => format!("v{};", f.version),
                            Pkt::V9(v) => super::streams::v9_shape(v),
                            Pkt::Ipfix(m) => super::streams::ipfix_shape(m),
                        });
                    }
                }
                Err(d) if d.class == "foreign" => {
                    w.rep.inconclusive += 1;
                    ok = false;
                }
                Err(d) => {
                    w.rep.violation(sig("C13", &d), &d, sut.replay_json());
                    ok = false;
                }
            }
        }
        // an error element converts to an error
        if ok && rng.chance(1, 4) {
            let res = sut.parse(0, &[0, 9, 0]);
            w.rep.count("error_elements", 1);
            match res.as_slice() {
                [e] if e.is_error() => {
                    if e.as_netflow_common().is_ok() {
                        let d = div("common/error", "converted", "an Error element converted to a common packet".into());
                        w.rep.violation(sig("C13", &d), &d, sut.replay_json());
                        ok = false;
                    }
                }
                _ => {}
            }
        }
        if ok {
            w.rep.shape(&shape);
            if w.rep.samples.len() < 2 {
                w.rep.sample(json!({"packets": n, "replay": sut.replay_json()}));
            }
        }
        for f in findings {
            let r = sut.replay_json();
            w.rep.finding(&f, || r);
        }
    }
    for (i, n) in names.iter().enumerate() {
        w.rep.count(&format!("field.{}.some", n), stats[i * 2]);
        w.rep.count(&format!("field.{}.none", n), stats[i * 2 + 1]);
    }
}
