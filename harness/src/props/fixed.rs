//! C03 (V5/V7 decode per the Cisco layouts, M-fixed) and C08 (V5/V7 re-export round trip, M-rt).

use crate::ast::FixedPkt;
use crate::ctx::{sig, Sut};
use crate::gen_conf::{fixed_max, fixed_pkt};
use crate::rng::Rng;
use crate::tables::{be, protocol_name_ok, V5_HEADER, V5_RECORD, V7_HEADER, V7_RECORD};
use crate::truth::{div, Div};
use crate::worker::W;
use netflow_parser::protocol::ProtocolTypes;
use netflow_parser::static_versions::{v5, v7};
use netflow_parser::NetflowPacket;
use serde_json::json;
use std::collections::BTreeSet;
use std::net::Ipv4Addr;

fn ip(a: Ipv4Addr) -> u64 {
    u32::from(a) as u64
}

fn v5_header_vals(h: &v5::Header) -> Vec<u64> {
    vec![h.version as u64, h.count as u64, h.sys_up_time as u64, h.unix_secs as u64, h.unix_nsecs as u64, h.flow_sequence as u64, h.engine_type as u64, h.engine_id as u64, h.sampling_interval as u64]
}
fn v5_record_vals(r: &v5::FlowSet) -> Vec<u64> {
    vec![ip(r.src_addr), ip(r.dst_addr), ip(r.next_hop), r.input as u64, r.output as u64, r.d_pkts as u64, r.d_octets as u64, r.first as u64, r.last as u64, r.src_port as u64, r.dst_port as u64, r.pad1 as u64, r.tcp_flags as u64, r.protocol_number as u64, r.tos as u64, r.src_as as u64, r.dst_as as u64, r.src_mask as u64, r.dst_mask as u64, r.pad2 as u64]
}
fn v7_header_vals(h: &v7::Header) -> Vec<u64> {
    vec![h.version as u64, h.count as u64, h.sys_up_time as u64, h.unix_secs as u64, h.unix_nsecs as u64, h.flow_sequence as u64, h.reserved as u64]
}
fn v7_record_vals(r: &v7::FlowSet) -> Vec<u64> {
    vec![ip(r.src_addr), ip(r.dst_addr), ip(r.next_hop), r.input as u64, r.output as u64, r.d_pkts as u64, r.d_octets as u64, r.first as u64, r.last as u64, r.src_port as u64, r.dst_port as u64, r.flags_fields_valid as u64, r.tcp_flags as u64, r.protocol_number as u64, r.tos as u64, r.src_as as u64, r.dst_as as u64, r.src_mask as u64, r.dst_mask as u64, r.flags_fields_invalid as u64, ip(r.router_src)]
}

pub struct FixedStats {
    pub fields: u64,
    pub records: u64,
    pub protos: BTreeSet<u8>,
    pub name_findings: Vec<(u8, String)>,
}

fn cmp_table(unit: &str, table: &[(&str, usize, usize)], vals: &[u64], bytes: &[u8], st: &mut FixedStats) -> Result<(), Div> {
    if table.len() != vals.len() {
        return Err(div(unit, "table", "offset table and struct disagree on the number of fields".into()));
    }
    for ((name, off, w), v) in table.iter().zip(vals.iter()) {
        let want = be(&bytes[*off..*off + *w]);
        st.fields += 1;
        if want != *v {
            return Err(div(&format!("{}/{}", unit, name), "value", format!("{} = {:#x}, bytes at offset {} (width {}) are {:#x}", name, v, off, w, want)));
        }
    }
    Ok(())
}

fn proto_check(unit: &str, n: u8, p: &ProtocolTypes, st: &mut FixedStats) -> Result<(), Div> {
    st.protos.insert(n);
    let name = format!("{:?}", p);
    if protocol_name_ok(n, &name) {
        return Ok(());
    }
    // the three listed wrong entries are recognised only with exactly the listed wrong name
    if (n == 0 && name == "Unknown") || (n == 1 && name == "Hopopt") || (n == 144 && name == "Reserved") {
        if !st.name_findings.iter().any(|x| x.0 == n) {
            st.name_findings.push((n, name));
        }
        return Ok(());
    }
    Err(div(&format!("{}/protocol_type", unit), &format!("protocol_name|n={}", n), format!("protocol {} ({}) is named {}", n, crate::tables::iana_name(n), name)))
}

/// M-fixed: `pkt` is what parse_bytes returned for a buffer starting with `bytes`.
pub fn check_fixed(bytes: &[u8], pkt: &NetflowPacket, st: &mut FixedStats) -> Result<usize, Div> {
    match pkt {
        NetflowPacket::V5(v) => {
            let n = be(&bytes[2..4]) as usize;
            cmp_table("v5/header", V5_HEADER, &v5_header_vals(&v.header), &bytes[..24], st)?;
            if v.flowsets.len() != n {
                return Err(div("v5/flowsets", "record-count", format!("{} records for count {}", v.flowsets.len(), n)));
            }
            for (i, r) in v.flowsets.iter().enumerate() {
                let b = &bytes[24 + i * 48..24 + (i + 1) * 48];
                cmp_table("v5/record", V5_RECORD, &v5_record_vals(r), b, st)?;
                proto_check("v5/record", b[38], &r.protocol_type, st)?;
                st.records += 1;
            }
            Ok(24 + 48 * n)
        }
        NetflowPacket::V7(v) => {
            let n = be(&bytes[2..4]) as usize;
            cmp_table("v7/header", V7_HEADER, &v7_header_vals(&v.header), &bytes[..24], st)?;
            if v.flowsets.len() != n {
                return Err(div("v7/flowsets", "record-count", format!("{} records for count {}", v.flowsets.len(), n)));
            }
            for (i, r) in v.flowsets.iter().enumerate() {
                let b = &bytes[24 + i * 52..24 + (i + 1) * 52];
                cmp_table("v7/record", V7_RECORD, &v7_record_vals(r), b, st)?;
                proto_check("v7/record", b[38], &r.protocol_type, st)?;
                st.records += 1;
            }
            Ok(24 + 52 * n)
        }
        other => Err(div("fixed", "kind", format!("expected a V5/V7 packet, got {}", crate::observe::kind(other)))),
    }
}

fn first_diff(a: &[u8], b: &[u8]) -> Option<usize> {
    if a.len() != b.len() {
        return Some(a.iter().zip(b.iter()).position(|(x, y)| x != y).unwrap_or(a.len().min(b.len())));
    }
    a.iter().zip(b.iter()).position(|(x, y)| x != y)
}

fn field_at(version: u16, off: usize) -> String {
    let (ht, rt, rl) = if version == 5 { (V5_HEADER, V5_RECORD, 48) } else { (V7_HEADER, V7_RECORD, 52) };
    if off < 24 {
        for (n, o, w) in ht {
            if off >= *o && off < o + w {
                return format!("header.{}", n);
            }
        }
        return "header".into();
    }
    let r = (off - 24) % rl;
    for (n, o, w) in rt {
        if r >= *o && r < o + w {
            return format!("record.{}", n);
        }
    }
    "record".into()
}

/// M-rt for one decoded fixed packet: to_be_bytes equals the consumed slice.
pub fn check_export(bytes: &[u8], pkt: &NetflowPacket) -> Result<usize, Div> {
    let (out, version) = match pkt {
        NetflowPacket::V5(v) => (v.to_be_bytes(), 5),
        NetflowPacket::V7(v) => (v.to_be_bytes(), 7),
        _ => return Err(div("fixed", "kind", "not a fixed packet".into())),
    };
    let len = crate::observe::wire_len(pkt).unwrap();
    let want = &bytes[..len.min(bytes.len())];
    if let Some(o) = first_diff(&out, want) {
        return Err(div(&format!("v{}/export/{}", version, field_at(version, o)), "bytes", format!("to_be_bytes differs from the consumed input at offset {} (lengths {} vs {})", o, out.len(), want.len())));
    }
    Ok(len)
}

fn gen_case(rng: &mut Rng, version: u16, n: usize) -> FixedPkt {
    let mut p = fixed_pkt(rng, version, n);
    // spread all protocol numbers over the records of larger packets
    if n >= 8 && rng.chance(1, 2) {
        let base = rng.u8();
        for (i, r) in p.records.iter_mut().enumerate() {
            r[38] = base.wrapping_add(i as u8);
        }
    }
    p
}

fn run_decode_case(w: &mut W, rng: &mut Rng, version: u16, n: usize, st: &mut FixedStats, do_cuts: bool) {
    let pkt = gen_case(rng, version, n);
    let wire = pkt.wire();
    // the packet alone, then followed by other data
    let tail: Vec<u8> = match rng.below(4) {
        0 => vec![],
        1 => {
            let v = if rng.chance(1, 2) { 5 } else { 7 };
            let k = rng.usize(3);
            fixed_pkt(rng, v, k).wire()
        }
        2 => {
            let k = 1 + rng.usize(30);
            rng.bytes(k)
        }
        _ => vec![],
    };
    let mut buf = wire.clone();
    buf.extend_from_slice(&tail);
    buf.truncate(65535);
    let mut sut = Sut::new(1);
    let res = sut.parse(0, &buf);
    w.rep.count("packets", 1);
    w.rep.count(&format!("count_covered.v{}", version), 1);
    let verdict = match res.first() {
        None => Err(div("fixed", "missing", "no element returned for a complete packet".into())),
        Some(p) => check_fixed(&buf, p, st).and_then(|len| if len == wire.len() { Ok(()) } else { Err(div("fixed", "length", format!("consumed {} want {}", len, wire.len()))) }),
    };
    let verdict = verdict.and_then(|_| crate::observe::account(&buf, &res, &sut.parsers[0].allowed_versions).map(|_| ()));
    if let Err(d) = verdict {
        w.rep.violation(sig("C03", &d), &d, sut.replay_json());
        return;
    }
    w.rep.shape(&format!("v{} n={} tail={}", version, n, tail.len().min(1)));
    if w.rep.samples.len() < 2 && n > 0 && n < 3 {
        w.rep.sample(json!({"version": version, "count": n, "replay": sut.replay_json()}));
    }
    // confusable framing: header words and record words that all read like the count / the version
    // number, followed by tails of lengths that would make a mis-framed read "add up" (2, 4, one or
    // two records +- 2): the packet still starts at byte 0 and its count is the word at offset 2
    {
        let rl = if version == 5 { 48usize } else { 52 };
        let mut p = gen_case(rng, version, n);
        let words = [n as u16, version, (n as u16).wrapping_add(1), version.wrapping_add(1)];
        for i in (4..24).step_by(2) {
            p.header[i..i + 2].copy_from_slice(&words[rng.usize(4)].to_be_bytes());
        }
        let cw = p.wire();
        for tl in [2usize, 4, rl - 2, rl, rl + 2, 2 * rl + 2] {
            let mut b = cw.clone();
            b.extend(rng.bytes(tl));
            if b.len() > 65535 {
                continue;
            }
            let mut s4 = Sut::new(1);
            let r = s4.parse(0, &b);
            w.rep.count("confusable_framing_cases", 1);
            let v = match r.first() {
                None => Err(div("fixed", "missing", "no element returned for a complete packet".into())),
                Some(e) => check_fixed(&b, e, st).and_then(|len| if len == cw.len() { Ok(()) } else { Err(div("fixed", "length", format!("consumed {} want {}", len, cw.len()))) }),
            };
            if let Err(mut d) = v {
                d.unit = format!("confusable/{}", d.unit);
                w.rep.violation(sig("C03", &d), &d, s4.replay_json());
                return;
            }
        }
    }
    // shorter buffers: an error, never a packet with fewer or invented records
    if do_cuts && n <= 3 {
        // every prefix on ONE parser (V5/V7 decoding is stateless: whatever an error path leaves
        // behind must not show later), then the complete packet once more
        let mut s2 = Sut::new(1);
        for cut in 0..wire.len() {
            let r = s2.parse(0, &wire[..cut]);
            w.rep.count("cut_points", 1);
            let bad = r.iter().any(|e| !e.is_error());
            let ok_shape = if cut == 0 { r.is_empty() } else { r.len() == 1 && r[0].is_error() };
            if bad || !ok_shape {
                let d = div(&format!("v{}/truncated", version), "accepted", format!("prefix of {} of {} bytes returned {:?}", cut, wire.len(), r.iter().map(crate::observe::kind).collect::<Vec<_>>()));
                w.rep.violation(sig("C03", &d), &d, s2.replay_json());
                return;
            }
        }
        let res = s2.parse(0, &wire);
        let verdict = match res.as_slice() {
            [p] => check_fixed(&wire, p, st).map(|_| ()),
            r => Err(div("fixed", "elements", format!("complete packet after its own prefixes returned {:?}", r.iter().map(crate::observe::kind).collect::<Vec<_>>()))),
        };
        if let Err(mut d) = verdict {
            d.unit = format!("after-truncated/{}", d.unit);
            w.rep.violation(sig("C03", &d), &d, json!({"note": "all proper prefixes of the packet in increasing length, then the packet, on one parser", "packet_hex": crate::util::hex(&wire)}));
            return;
        }
        // complementary cut: a longer packet cut so that exactly len(wire) bytes are missing, then
        // this complete packet in the next call - it is a packet of its own, not the missing tail
        if n >= 1 {
            let extra = 1 + rng.usize(3);
            let longer = gen_case(rng, version, n + extra).wire();
            let mut s3 = Sut::new(1);
            if longer.len() > wire.len() {
                let r1 = s3.parse(0, &longer[..longer.len() - wire.len()]);
                let r2 = s3.parse(0, &wire);
                w.rep.count("complementary_cuts", 1);
                let v = if !(r1.len() == 1 && r1[0].is_error()) {
                    Err(div(&format!("v{}/truncated", version), "accepted", format!("packet of {} bytes cut at {} returned {:?}", longer.len(), longer.len() - wire.len(), r1.iter().map(crate::observe::kind).collect::<Vec<_>>())))
                } else {
                    match r2.as_slice() {
                        [p] => check_fixed(&wire, p, st).map(|_| ()).map_err(|mut d| {
                            d.unit = format!("after-truncated/{}", d.unit);
                            d
                        }),
                        r => Err(div("after-truncated/fixed", "elements", format!("complete packet in the call after a truncated one returned {:?}", r.iter().map(crate::observe::kind).collect::<Vec<_>>()))),
                    }
                };
                if let Err(d) = v {
                    w.rep.violation(sig("C03", &d), &d, s3.replay_json());
                    return;
                }
            }
        }
    }
}

fn flush_stats(w: &mut W, st: &FixedStats, prop: &str) {
    w.rep.count("fields_compared", st.fields);
    w.rep.count("records", st.records);
    let protos: Vec<u64> = st.protos.iter().map(|x| *x as u64).collect();
    w.rep.extra.insert("protocol_numbers_seen".into(), json!(protos));
    if prop == "C03" {
        for (n, name) in &st.name_findings {
            let s = format!("C03|protocol_name|n={}|got={}", n, name);
            let (n, name) = (*n, name.clone());
            w.rep.finding(&s, || {
                let mut p = FixedPkt { version: 5, header: [0; 24], records: vec![vec![0u8; 48]] };
                p.header[1] = 5;
                p.header[3] = 1;
                p.records[0][38] = n;
                json!({"parsers": [[5,7,9,10]], "ops": [{"parser": 0, "hex": crate::util::hex(&p.wire())}], "observed": format!("protocol {} named {}", n, name)})
            });
        }
    }
}

pub fn run_c03(w: &mut W) {
    let mut st = FixedStats { fields: 0, records: 0, protos: BTreeSet::new(), name_findings: vec![] };
    // exhaustive sub-space: record counts. thorough: every count that fits a datagram;
    // quick: 0..=64, a stride through the rest, and the maximum.
    let mut j = 0u64;
    for version in [5u16, 7] {
        let max = fixed_max(version);
        for n in 0..=max {
            let take = w.thorough || n <= 64 || n % 41 == 0 || n == max;
            if !take {
                continue;
            }
            if w.oneoff(j) {
                let mut rng = w.begin_case(crate::worker::ONEOFF + j, "count-sweep");
                run_decode_case(w, &mut rng, version, n, &mut st, true);
            }
            j += 1;
        }
        // counts beyond the datagram limit, fully materialised (the parser accepts any slice)
        for n in [max + 1, max + 2, 1500, 2000, 4096, if w.thorough { 65535 } else { 8191 }] {
            if w.oneoff(j) {
                let mut rng = w.begin_case(crate::worker::ONEOFF + j, "count-beyond-datagram");
                let pkt = gen_case(&mut rng, version, n);
                let wire = pkt.wire();
                let mut sut = Sut::new(1);
                let res = sut.parse(0, &wire);
                let verdict = match res.as_slice() {
                    [e] => check_fixed(&wire, e, &mut st).and_then(|len| if len == wire.len() { Ok(()) } else { Err(div("fixed", "length", format!("consumed {} want {}", len, wire.len()))) }),
                    other => Err(div("fixed", "elements", format!("count {}: returned {:?}", n, other.iter().map(crate::observe::kind).collect::<Vec<_>>()))),
                };
                if let Err(d) = verdict {
                    let mut small = Sut::new(1);
                    small.ops.push((0, wire[..200.min(wire.len())].to_vec()));
                    w.rep.violation(sig("C03", &d), &d, json!({"note": format!("V{} packet with count {} ({} bytes), regenerate from the case", version, n, wire.len())}));
                }
                w.rep.count("count_beyond_datagram_cases", 1);
            }
            j += 1;
        }
        // counts above what fits: must be an error
        for n in [max + 1, 2000, 32768, 65535] {
            if w.oneoff(j) {
                let mut rng = w.begin_case(crate::worker::ONEOFF + j, "count-over");
                let mut p = fixed_pkt(&mut rng, version, 3);
                p.header[2..4].copy_from_slice(&(n as u16).to_be_bytes());
                let mut sut = Sut::new(1);
                let r = sut.parse(0, &p.wire());
                if !(r.len() == 1 && r[0].is_error()) {
                    let d = div(&format!("v{}/short-body", version), "accepted", format!("count {} with 3 records returned {:?}", n, r.iter().map(crate::observe::kind).collect::<Vec<_>>()));
                    w.rep.violation(sig("C03", &d), &d, sut.replay_json());
                }
                w.rep.count("count_over_cases", 1);
            }
            j += 1;
        }
    }
    // announced count x records present (an exhaustive sub-space): every count from a list of
    // interesting 16-bit values (small numbers, their byte-swapped forms k<<8, values around 255/256,
    // powers of two, 65535) over bodies of exactly 0..=40 complete records, also one byte short and
    // one byte long. Fewer records than announced must be an error; never a shorter valid packet.
    for version in [5u16, 7] {
        if w.oneoff(j) {
            let mut rng = w.begin_case(crate::worker::ONEOFF + j, "count-x-records-present");
            let rl = if version == 5 { 48usize } else { 52 };
            let mut counts: Vec<usize> = (1..=48).collect();
            counts.extend((1..=48).map(|k| k << 8));
            counts.extend((1..=48).map(|k| (k << 8) | k));
            counts.extend_from_slice(&[254, 255, 257, 511, 513, 1023, 1024, 1365, 4095, 4096, 8192, 16384, 32767, 32768, 32769, 65534, 65535]);
            counts.sort();
            counts.dedup();
            let body = rng.bytes(rl * 41 + 1);
            let mut cases = 0u64;
            'outer: for c in &counts {
                for present in 0..=40usize {
                    for delta in [-1i64, 0, 1] {
                        let blen = (present * rl) as i64 + delta;
                        if blen < 0 || (blen as usize) >= c * rl {
                            continue; // complete packets are the count sweep's business
                        }
                        let mut buf = vec![0u8; 24];
                        buf[0..2].copy_from_slice(&version.to_be_bytes());
                        buf[2..4].copy_from_slice(&(*c as u16).to_be_bytes());
                        buf[4..24].copy_from_slice(&body[..20]);
                        buf.extend_from_slice(&body[..blen as usize]);
                        let mut p = netflow_parser::NetflowParser::default();
                        let r = p.parse_bytes(&buf);
                        cases += 1;
                        if !(r.len() == 1 && r[0].is_error()) {
                            let d = div(&format!("v{}/short-body", version), "accepted", format!("count {} announced, {} bytes of records present ({} complete records): returned {:?}", c, blen, present, r.iter().map(crate::observe::kind).collect::<Vec<_>>()));
                            let mut sut = Sut::new(1);
                            sut.parse(0, &buf);
                            w.rep.violation(sig("C03", &d), &d, sut.replay_json());
                            break 'outer;
                        }
                    }
                }
            }
            w.rep.count("count_x_records_present_cases", cases);
            w.rep.count("fields_compared", cases);
        }
        j += 1;
    }
    // every one of the 256 protocol numbers, in both versions, in every run
    for version in [5u16, 7] {
        if w.oneoff(j) {
            let mut rng = w.begin_case(crate::worker::ONEOFF + j, "all-protocols");
            let mut p = fixed_pkt(&mut rng, version, 256);
            for (i, r) in p.records.iter_mut().enumerate() {
                r[38] = i as u8;
            }
            let wire = p.wire();
            let mut sut = Sut::new(1);
            let res = sut.parse(0, &wire);
            let verdict = match res.first() {
                None => Err(div("fixed", "missing", "no element returned for a complete packet".into())),
                Some(e) => check_fixed(&wire, e, &mut st).map(|_| ()),
            };
            if let Err(d) = verdict {
                w.rep.violation(sig("C03", &d), &d, sut.replay_json());
            }
            w.rep.count("all_protocol_packets", 1);
        }
        j += 1;
    }
    w.rep.extra.insert("exhaustive_subspaces".into(), json!({"record_counts": if w.thorough { "all 0..=1364 (V5), 0..=1259 (V7)" } else { "0..=64, every 41st, max" }, "protocol_numbers": "all 256 in every run (see protocol_numbers_seen)"}));
    for idx in w.indices() {
        let mut rng = w.begin_case(idx, "random");
        let version = if rng.chance(1, 2) { 5 } else { 7 };
        let n = match rng.below(10) {
            0 => 0,
            1 => rng.range(30, 300) as usize,
            _ => rng.range(1, 30) as usize,
        };
        run_decode_case(w, &mut rng, version, n, &mut st, idx % 50 == 0);
    }
    flush_stats(w, &st, "C03");
}

// ------------------------------------------------------------------------------------ C08

fn struct_roundtrip_v5(rng: &mut Rng, n: usize) -> Result<(), Div> {
    let mk = |rng: &mut Rng| {
        let pn = rng.u8();
        v5::FlowSet {
            src_addr: Ipv4Addr::from(rng.b32()),
            dst_addr: Ipv4Addr::from(rng.b32()),
            next_hop: Ipv4Addr::from(rng.b32()),
            input: rng.b16(),
            output: rng.b16(),
            d_pkts: rng.b32(),
            d_octets: rng.b32(),
            first: rng.b32(),
            last: rng.b32(),
            src_port: rng.b16(),
            dst_port: rng.b16(),
            pad1: rng.u8(),
            tcp_flags: rng.u8(),
            protocol_number: pn,
            protocol_type: ProtocolTypes::from(pn),
            tos: rng.u8(),
            src_as: rng.b16(),
            dst_as: rng.b16(),
            src_mask: rng.u8(),
            dst_mask: rng.u8(),
            pad2: rng.b16(),
        }
    };
    let s = v5::V5 {
        header: v5::Header { version: 5, count: n as u16, sys_up_time: rng.b32(), unix_secs: rng.b32(), unix_nsecs: rng.b32(), flow_sequence: rng.b32(), engine_type: rng.u8(), engine_id: rng.u8(), sampling_interval: rng.b16() },
        flowsets: (0..n).map(|_| mk(rng)).collect(),
    };
    let bytes = s.to_be_bytes();
    let mut p = netflow_parser::NetflowParser::default();
    let r = p.parse_bytes(&bytes);
    match r.as_slice() {
        [NetflowPacket::V5(g)] => {
            if g.header != s.header {
                return Err(div("v5/struct-roundtrip/header", "value", format!("{:?} != {:?}", g.header, s.header)));
            }
            if g.flowsets != s.flowsets {
                let i = g.flowsets.iter().zip(s.flowsets.iter()).position(|(a, b)| a != b).unwrap_or(0);
                return Err(div("v5/struct-roundtrip/record", "value", format!("record {}: {:?} != {:?}", i, g.flowsets.get(i), s.flowsets.get(i))));
            }
            Ok(())
        }
        other => Err(div("v5/struct-roundtrip", "kind", format!("parse(to_be_bytes(struct)) returned {:?}", other.iter().map(crate::observe::kind).collect::<Vec<_>>()))),
    }
}

fn struct_roundtrip_v7(rng: &mut Rng, n: usize) -> Result<(), Div> {
    let mk = |rng: &mut Rng| {
        let pn = rng.u8();
        v7::FlowSet {
            src_addr: Ipv4Addr::from(rng.b32()),
            dst_addr: Ipv4Addr::from(rng.b32()),
            next_hop: Ipv4Addr::from(rng.b32()),
            input: rng.b16(),
            output: rng.b16(),
            d_pkts: rng.b32(),
            d_octets: rng.b32(),
            first: rng.b32(),
            last: rng.b32(),
            src_port: rng.b16(),
            dst_port: rng.b16(),
            flags_fields_valid: rng.u8(),
            tcp_flags: rng.u8(),
            protocol_number: pn,
            protocol_type: ProtocolTypes::from(pn),
            tos: rng.u8(),
            src_as: rng.b16(),
            dst_as: rng.b16(),
            src_mask: rng.u8(),
            dst_mask: rng.u8(),
            flags_fields_invalid: rng.b16(),
            router_src: Ipv4Addr::from(rng.b32()),
        }
    };
    let s = v7::V7 {
        header: v7::Header { version: 7, count: n as u16, sys_up_time: rng.b32(), unix_secs: rng.b32(), unix_nsecs: rng.b32(), flow_sequence: rng.b32(), reserved: rng.b32() },
        flowsets: (0..n).map(|_| mk(rng)).collect(),
    };
    let bytes = s.to_be_bytes();
    let mut p = netflow_parser::NetflowParser::default();
    let r = p.parse_bytes(&bytes);
    match r.as_slice() {
        [NetflowPacket::V7(g)] => {
            if g.header != s.header {
                return Err(div("v7/struct-roundtrip/header", "value", format!("{:?} != {:?}", g.header, s.header)));
            }
            if g.flowsets != s.flowsets {
                let i = g.flowsets.iter().zip(s.flowsets.iter()).position(|(a, b)| a != b).unwrap_or(0);
                return Err(div("v7/struct-roundtrip/record", "value", format!("record {}: {:?} != {:?}", i, g.flowsets.get(i), s.flowsets.get(i))));
            }
            Ok(())
        }
        other => Err(div("v7/struct-roundtrip", "kind", format!("parse(to_be_bytes(struct)) returned {:?}", other.iter().map(crate::observe::kind).collect::<Vec<_>>()))),
    }
}

fn run_export_case(w: &mut W, rng: &mut Rng, version: u16, n: usize) {
    let pkt = gen_case(rng, version, n);
    let wire = pkt.wire();
    let mut buf = wire.clone();
    if rng.chance(1, 3) {
        buf.extend(fixed_pkt(rng, 5, 1).wire());
    }
    buf.truncate(65535);
    let mut sut = Sut::new(1);
    let res = sut.parse(0, &buf);
    w.rep.count("packets", 1);
    let mut off = 0;
    for e in &res {
        if e.is_error() {
            break;
        }
        match check_export(&buf[off..], e) {
            Ok(len) => {
                off += len;
                w.rep.count("bytes_compared", len as u64);
                w.rep.count("exports", 1);
            }
            Err(d) => {
                w.rep.violation(sig("C08", &d), &d, sut.replay_json());
                return;
            }
        }
    }
    if off < wire.len() {
        let d = div(&format!("v{}/export", version), "missing", "complete packet was not returned".into());
        w.rep.violation(sig("C08", &d), &d, sut.replay_json());
        return;
    }
    w.rep.shape(&format!("bytes v{} n={}", version, n));
    if w.rep.samples.len() < 2 && n == 1 {
        w.rep.sample(json!({"version": version, "count": n, "replay": sut.replay_json()}));
    }
    // struct -> bytes -> struct
    let r = if version == 5 { struct_roundtrip_v5(rng, n) } else { struct_roundtrip_v7(rng, n) };
    w.rep.count("struct_roundtrips", 1);
    match r {
        Ok(()) => w.rep.shape(&format!("struct v{} n={}", version, n)),
        Err(d) => w.rep.violation(sig("C08", &d), &d, json!({"note": "struct built by the harness from the case PRNG; re-run the case"})),
    }
}

/// Every V5/V7 element returned for *any* buffer (truncated at and around record boundaries,
/// hostile, mutated, corpus) must re-export to exactly the bytes it occupied: the slice that starts
/// where the preceding elements end and has the length its own header implies. An element whose
/// header implies more bytes than the buffer holds did not occupy them (that it was accepted at
/// all is C03/C14's business; what C08 decides is that its re-export cannot be the input).
fn run_accepted_case(w: &mut W, rng: &mut Rng) {
    let mut sut;
    let ops: Vec<(usize, Vec<u8>)>;
    let mut hist: Option<super::common::History> = None;
    if rng.chance(1, 2) {
        // a V5/V7 packet cut on / next to a record boundary or anywhere, alone or after a packet
        let version = if rng.chance(1, 2) { 5 } else { 7 };
        let n = 1 + rng.usize(6);
        let rl = if version == 5 { 48 } else { 52 };
        let wire = gen_case(rng, version, n).wire();
        let k = rng.usize(n + 1);
        let cut = match rng.below(4) {
            0 => 24 + rl * k,
            1 => (24 + rl * k + 1).min(wire.len()),
            2 => (24 + rl * k).saturating_sub(1).max(1),
            _ => 1 + rng.usize(wire.len()),
        };
        let mut buf = if rng.chance(1, 3) {
            let v = if rng.chance(1, 2) { 5 } else { 7 };
            let k = rng.usize(3);
            fixed_pkt(rng, v, k).wire()
        } else {
            vec![]
        };
        sut = Sut::new(1);
        if rng.chance(1, 3) {
            // complementary cut: the next call brings a complete packet that is exactly as long as
            // what the truncated one was missing (it is a packet of its own, not the missing tail)
            let nb = rng.usize(n);
            let b = gen_case(rng, version, nb).wire();
            if b.len() < wire.len() {
                buf.extend_from_slice(&wire[..wire.len() - b.len()]);
                ops = vec![(0, buf), (0, b)];
            } else {
                buf.extend_from_slice(&wire[..cut.min(wire.len())]);
                ops = vec![(0, buf)];
            }
        } else {
            buf.extend_from_slice(&wire[..cut.min(wire.len())]);
            ops = vec![(0, buf)];
        }
        w.rep.count("accepted_family.cut_buffers", 1);
    } else {
        let h = super::common::hostile_history(rng, &w.pools, &w.corpus);
        sut = Sut::new(0);
        sut.parsers = super::common::make_parsers(&h);
        ops = h.ops.clone();
        hist = Some(h);
        w.rep.count("accepted_family.hostile_histories", 1);
    }
    for (i, (p, buf)) in ops.iter().enumerate() {
        if let Some(h) = &hist {
            h.reconfigure(i, &mut sut);
        }
        let res = match std::panic::catch_unwind(std::panic::AssertUnwindSafe(|| sut.parse(*p, buf))) {
            Ok(r) => r,
            Err(_) => {
                crate::util::take_panic();
                w.rep.panics_foreign += 1;
                return;
            }
        };
        let mut off = 0usize;
        for e in &res {
            let len = match crate::observe::wire_len(e) {
                Some(l) => l,
                None => break,
            };
            if let NetflowPacket::V5(_) | NetflowPacket::V7(_) = e {
                let version = if matches!(e, NetflowPacket::V5(_)) { 5 } else { 7 };
                w.rep.count("accepted_family.fixed_elements", 1);
                let d = if off + len > buf.len() {
                    Some(div(&format!("v{}/accepted/export", version), "beyond-buffer", format!("element at offset {} announces {} bytes but the buffer has {}: its re-export cannot equal bytes it occupied", off, len, buf.len())))
                } else {
                    match check_export(&buf[off..], e) {
                        Ok(_) => {
                            w.rep.count("exports", 1);
                            w.rep.count("bytes_compared", len as u64);
                            None
                        }
                        Err(mut d) => {
                            d.unit = d.unit.replace("/export/", "/accepted/export/");
                            Some(d)
                        }
                    }
                };
                if let Some(d) = d {
                    w.rep.violation(sig("C08", &d), &d, sut.replay_json());
                    return;
                }
            }
            off += len;
            if off > buf.len() {
                break; // accounting is C02's domain
            }
        }
    }
    w.rep.shape(&format!("accepted ops={}", ops.len()));
}

pub fn run_c08(w: &mut W) {
    let mut j = 0u64;
    for version in [5u16, 7] {
        let max = fixed_max(version);
        for n in 0..=max {
            let take = w.thorough || n <= 48 || n % 53 == 0 || n == max;
            if !take {
                continue;
            }
            if w.oneoff(j) {
                let mut rng = w.begin_case(crate::worker::ONEOFF + j, "count-sweep");
                run_export_case(w, &mut rng, version, n);
                w.rep.count(&format!("count_covered.v{}", version), 1);
            }
            j += 1;
        }
    }
    w.rep.extra.insert("exhaustive_subspaces".into(), json!({"record_counts": if w.thorough { "all 0..=1364 (V5), 0..=1259 (V7)" } else { "0..=48, every 53rd, max" }}));
    for idx in w.indices() {
        let mut rng = w.begin_case(idx, "random");
        if idx % 3 == 2 {
            run_accepted_case(w, &mut rng);
            continue;
        }
        let version = if rng.chance(1, 2) { 5 } else { 7 };
        let n = match rng.below(10) {
            0 => 0,
            1 => rng.range(30, 200) as usize,
            _ => rng.range(1, 30) as usize,
        };
        run_export_case(w, &mut rng, version, n);
    }
}
