//! Conformant-stream checks: C04 / C05 (M-truth), C09 / C10 (M-rt).

use crate::ast::*;
use crate::ctx::{sig, Sut};
use crate::gen_conf::{Cfg, Exporter};
use crate::rng::Rng;
use crate::rt::{judge, model_ipfix, model_v9, RtVerdict};
use crate::truth::{check_ipfix, check_v9, div, Div, Stats};
use crate::worker::W;
use netflow_parser::NetflowPacket;
use serde_json::json;

pub fn stream_cfg(rng: &mut Rng) -> Cfg {
    let mut cfg = Cfg::default();
    cfg.count_is_flowsets = rng.chance(1, 3);
    cfg.small_ids = rng.chance(1, 3);
    cfg.multi_opt_records = rng.chance(1, 6);
    cfg.signed_wide = rng.chance(1, 8);
    cfg.cross_kind = rng.chance(1, 2);
    if rng.chance(1, 10) {
        cfg.max_records = 60;
    }
    if rng.chance(1, 10) {
        cfg.max_fields = 30;
    }
    cfg.twins = rng.chance(1, 4);
    cfg
}

pub fn v9_shape(p: &V9Pkt) -> String {
    let mut s = String::from("v9:");
    for f in &p.flowsets {
        match f {
            V9FlowSet::Template { templates, .. } => {
                s.push_str("T");
                for t in templates {
                    s.push_str(&format!("{:?}", t.fields));
                }
            }
            V9FlowSet::OptionsTemplate { templates, .. } => {
                s.push_str("O");
                for t in templates {
                    s.push_str(&format!("{:?}{:?}", t.scope, t.opts));
                }
            }
            V9FlowSet::Data { tmpl, records, padding } => s.push_str(&format!("D{:?}x{}p{}", tmpl.fields, records.len().min(3), padding.len())),
            V9FlowSet::OptionsData { records, padding, .. } => s.push_str(&format!("Q{}p{}", records.len(), padding.len())),
            V9FlowSet::Orphan { .. } => s.push('X'),
        }
        s.push(';');
    }
    s
}

pub fn ipfix_shape(p: &IpfixMsg) -> String {
    let mut s = String::from("ipfix:");
    let spec = |f: &IpfixSpec| format!("({},{},{})", f.type_num, f.len, f.enterprise.is_some());
    for f in &p.sets {
        match f {
            IpfixSet::Template { records, padding } => {
                s.push('T');
                for t in records {
                    for f in &t.fields {
                        s.push_str(&spec(f));
                    }
                }
                s.push_str(&format!("p{}", padding.len()));
            }
            IpfixSet::OptionsTemplate { records, padding } => {
                s.push('O');
                for t in records {
                    s.push_str(&format!("s{}", t.scope_count));
                    for f in &t.fields {
                        s.push_str(&spec(f));
                    }
                }
                s.push_str(&format!("p{}", padding.len()));
            }
            IpfixSet::Data { fields, records, padding, options, .. } => {
                s.push(if *options { 'Q' } else { 'D' });
                for f in fields {
                    s.push_str(&spec(f));
                }
                s.push_str(&format!("x{}p{}", records.len().min(3), padding.len()));
            }
            IpfixSet::Orphan { .. } => s.push('X'),
        }
        s.push(';');
    }
    s
}

fn flush_truth_stats(w: &mut W, st: &Stats) {
    w.rep.count("records", st.records);
    w.rep.count("cells", st.cells_total);
    w.rep.count("templates", st.templates);
    w.rep.count("cells_no_oracle_width", st.skipped_cells);
    w.rep.count("varlen_short_prefix", st.varlen_short);
    w.rep.count("varlen_long_prefix", st.varlen_long);
    w.rep.count("enterprise_cells", st.enterprise_cells);
    for (k, v) in &st.flowsets {
        w.rep.count(&format!("sets.{}", k), *v);
    }
    for (k, v) in &st.paddings {
        w.rep.count(&format!("padding_len.{}", k), *v);
    }
    let mut matrix = serde_json::Map::new();
    for ((dt, wd), v) in &st.cells {
        matrix.insert(format!("{}/w{}", dt.name(), wd), json!(v));
    }
    w.rep.extra.insert("cells_by_type_width".into(), serde_json::Value::Object(matrix));
}

/// parse one packet alone; the element must be exactly one non-error packet
fn parse_one(sut: &mut Sut, wire: &[u8], what: &str) -> Result<NetflowPacket, Div> {
    let mut res = sut.parse(0, wire);
    if res.len() != 1 {
        return Err(div(what, "elements", format!("{} element(s) {:?} for one conformant packet of {} bytes", res.len(), res.iter().map(crate::observe::kind).collect::<Vec<_>>(), wire.len())));
    }
    let e = res.pop().unwrap();
    if let NetflowPacket::Error(err) = &e {
        let t = format!("{:?}", err.error);
        return Err(div(what, "rejected", format!("conformant packet rejected: {}", &t[..t.len().min(200)])));
    }
    Ok(e)
}

// ------------------------------------------------------------------------------------ C04

pub fn run_c04(w: &mut W) {
    let mut st = Stats::default();
    super::idspace::run(w, "C04", 0, &[0, 1]);
    for idx in w.indices() {
        let mut rng = w.begin_case(idx, "v9-stream");
        let cfg = stream_cfg(&mut rng);
        let mut ex = Exporter::new();
        let mut sut = Sut::new(1);
        let n = 2 + rng.usize(6);
        let mut other = Exporter::new();
        let mut last_source: u32 = rng.b32();
        for _ in 0..n {
            if rng.chance(1, 5) {
                // an IPFIX message of the same device (observation domain = the V9 source id) that
                // announces templates over the same ids: nothing IPFIX does is visible to V9
                let mut m = other.ipfix_msg(&mut rng, &cfg, &w.pools);
                m.domain = last_source;
                sut.parse(0, &m.wire());
                w.rep.count("interleaved_ipfix_messages", 1);
            }
            if !ex.v9_t.is_empty() && rng.chance(1, 400) {
                // a long quiet spell for every template announced so far: two to three thousand
                // header-only V9 packets (one buffer), none of which refreshes or uses any id.
                // RFC 3954 lets an *exporter* expire templates; a collector that forgets them on
                // its own drops conformant data.
                let m = 2100 + rng.usize(1170);
                let mut idle = Vec::with_capacity(20 * m);
                for i in 0..m {
                    idle.extend_from_slice(&[0, 9, 0, 0]);
                    idle.extend_from_slice(&rng.b32().to_be_bytes());
                    idle.extend_from_slice(&rng.b32().to_be_bytes());
                    idle.extend_from_slice(&(i as u32).to_be_bytes());
                    idle.extend_from_slice(&last_source.to_be_bytes());
                }
                let r = sut.parse(0, &idle);
                w.rep.count("idle_spells_of_header_only_packets", 1);
                if r.len() != m || r.iter().any(|e| !matches!(e, NetflowPacket::V9(_))) {
                    let d = div("v9/idle", "elements", format!("{} header-only V9 packets in one buffer returned {} elements", m, r.len()));
                    w.rep.violation(sig("C04", &d), &d, sut.replay_json());
                    break;
                }
            }
            let pkt = ex.v9_packet(&mut rng, &cfg, &w.pools);
            last_source = pkt.source_id;
            let wire = pkt.wire();
            w.rep.count("packets", 1);
            let verdict = parse_one(&mut sut, &wire, "v9").and_then(|e| match &e {
                NetflowPacket::V9(v) => check_v9(&pkt, v, &mut st),
                other => Err(div("v9", "kind", format!("decoded as {}", crate::observe::kind(other)))),
            });
            match verdict {
                Ok(()) => w.rep.shape(&v9_shape(&pkt)),
                Err(d) => {
                    w.rep.violation(sig("C04", &d), &d, sut.replay_json());
                    break;
                }
            }
        }
        if w.rep.samples.len() < 2 {
            w.rep.sample(json!({"stream": "v9", "packets": n, "replay": sut.replay_json()}));
        }
        for (k, c) in std::mem::take(&mut st.findings) {
            let r = sut.replay_json();
            for _ in 0..c {
                w.rep.finding(&k, || r.clone());
            }
        }
    }
    flush_truth_stats(w, &st);
}

// ------------------------------------------------------------------------------------ C05

/// greedy field-specifier parse of a template set body: the model of listed finding D6
pub fn greedy_specs(mut b: &[u8]) -> (Vec<IpfixSpec>, Vec<u8>) {
    let mut out = vec![];
    loop {
        if b.len() < 4 {
            break;
        }
        let t = u16::from_be_bytes([b[0], b[1]]);
        let l = u16::from_be_bytes([b[2], b[3]]);
        if t > 32767 {
            if b.len() < 8 {
                break;
            }
            let e = u32::from_be_bytes([b[4], b[5], b[6], b[7]]);
            out.push(IpfixSpec { type_num: t - 32768, len: l, enterprise: Some(e) });
            b = &b[8..];
        } else {
            out.push(IpfixSpec { type_num: t, len: l, enterprise: None });
            b = &b[4..];
        }
    }
    (out, b.to_vec())
}

fn specs_match(got: &[netflow_parser::variable_versions::ipfix::TemplateField], exp: &[IpfixSpec]) -> bool {
    got.len() == exp.len() && got.iter().zip(exp.iter()).all(|(g, e)| g.field_type_number == e.type_num && g.field_length == e.len && g.enterprise_number == e.enterprise)
}

/// finding families of C05 (each produces either the correct behaviour, exactly the listed
/// defect model -> finding, or a violation)
fn c05_finding_families(w: &mut W, rng: &mut Rng, which: u64) {
    use netflow_parser::variable_versions::ipfix as ix;
    let cfg = Cfg { multi_tmpl_sets: false, ..Cfg::default() };
    let mut ex = Exporter::new();
    let mut sut = Sut::new(1);
    match which % 3 {
        0 => {
            // D6: template set with >= 2 template records
            let k = 2 + rng.usize(2);
            let records: Vec<IpfixTmpl> = (0..k).map(|_| ex.ipfix_new_template(rng, &cfg, &w.pools)).collect();
            let msg = ex.ipfix_wrap(rng, vec![IpfixSet::Template { records: records.clone(), padding: vec![] }]);
            let wire = msg.wire();
            let res = sut.parse(0, &wire);
            w.rep.count("family.multi-template-set", 1);
            let verdict: Result<bool, Div> = (|| {
                let v = match res.as_slice() {
                    [NetflowPacket::IPFix(v)] => v,
                    _ => return Err(div("ipfix/template-set", "multi-record", "message with a multi-record template set not returned as one IPFIX element".into())),
                };
                // correct behaviour is not representable in the result type (one template per set),
                // so only the listed model can match; the cache must at least hold the first id
                let body = msg.sets[0].body();
                let (gs, pad) = greedy_specs(&body[4..]);
                match v.flowsets.as_slice() {
                    [ix::FlowSet { body: ix::FlowSetBody::Template(t), .. }] if t.template_id == records[0].id && t.field_count as usize == records[0].fields.len() && specs_match(&t.fields, &gs) && t.padding == pad => Ok(true),
                    _ => Err(div("ipfix/template-set", "multi-record", format!("template set with {} records decoded neither per record nor as the listed greedy merge", k))),
                }
            })();
            match verdict {
                Ok(true) => w.rep.finding("C05|ipfix|template-set|multi-record|model=greedy-merge", || sut.replay_json()),
                Ok(false) => {}
                Err(d) => w.rep.violation(sig("C05", &d), &d, sut.replay_json()),
            }
        }
        1 => {
            // D7: options-template set with 2 records
            let records: Vec<IpfixOptTmpl> = (0..2).map(|_| ex.ipfix_new_opt_template(rng, &cfg, &w.pools)).collect();
            let msg = ex.ipfix_wrap(rng, vec![IpfixSet::OptionsTemplate { records: records.clone(), padding: vec![] }]);
            let wire = msg.wire();
            let res = sut.parse(0, &wire);
            w.rep.count("family.multi-options-template-set", 1);
            let ok = match res.as_slice() {
                [NetflowPacket::IPFix(v)] => match v.flowsets.as_slice() {
                    [ix::FlowSet { body: ix::FlowSetBody::OptionsTemplate(t), .. }] => t.template_id == records[0].id && specs_match(&t.fields, &records[0].fields) && t.scope_field_count == records[0].scope_count && t.padding == records[1].wire(),
                    _ => false,
                },
                _ => false,
            };
            if ok {
                w.rep.finding("C05|ipfix|options-template-set|multi-record|model=first-only-rest-padding", || sut.replay_json());
            } else {
                let d = div("ipfix/options-template-set", "multi-record", "options-template set with 2 records decoded neither per record nor as the listed first-record-only model".into());
                w.rep.violation(sig("C05", &d), &d, sut.replay_json());
            }
        }
        _ => {
            // D10: sets after an undecodable set (data for a withheld template) vanish
            let t1 = ex.ipfix_new_template(rng, &cfg, &w.pools);
            let m0 = ex.ipfix_wrap(rng, vec![IpfixSet::Template { records: vec![t1.clone()], padding: vec![] }]);
            let d1 = ex.ipfix_data(rng, &cfg, t1.id, false, &t1.fields);
            let d2 = ex.ipfix_data(rng, &cfg, t1.id, false, &t1.fields);
            let orphan_id = if t1.id == 65535 { 300 } else { t1.id + 1 };
            let orphan = IpfixSet::Orphan { id: orphan_id, body: rng.bytes(8) };
            let msg = ex.ipfix_wrap(rng, vec![d1.clone(), orphan, d2.clone()]);
            sut.parse(0, &m0.wire());
            let res = sut.parse(0, &msg.wire());
            w.rep.count("family.sets-after-undecodable", 1);
            let mut st = Stats::default();
            let verdict: Result<bool, Div> = (|| {
                let v = match res.as_slice() {
                    [NetflowPacket::IPFix(v)] => v,
                    _ => return Err(div("ipfix/sets", "after-undecodable", "message not returned as one IPFIX element".into())),
                };
                let full = IpfixMsg { sets: vec![d1.clone(), d2.clone()], ..msg.clone() };
                let only_first = IpfixMsg { sets: vec![d1.clone()], ..msg.clone() };
                // header.length is that of the real message
                let mut fix_len = |m: &IpfixMsg| -> Result<(), Div> {
                    let mut g = v.clone();
                    g.header.length = m.wire().len() as u16;
                    check_ipfix(m, &g, &mut st)
                };
                if v.header.length as usize != msg.wire().len() {
                    return Err(div("ipfix/header", "value", "length".into()));
                }
                if fix_len(&full).is_ok() {
                    return Ok(false);
                }
                fix_len(&only_first).map(|_| true).map_err(|_| div("ipfix/sets", "after-undecodable", "neither all decodable sets nor the listed stop-at-first-undecodable-set model".into()))
            })();
            match verdict {
                Ok(true) => w.rep.finding("C05|ipfix|sets-after-undecodable-set|model=dropped", || sut.replay_json()),
                Ok(false) => {}
                Err(d) => w.rep.violation(sig("C05", &d), &d, sut.replay_json()),
            }
        }
    }
}

pub fn run_c05(w: &mut W) {
    let mut st = Stats::default();
    super::idspace::run(w, "C05", 0, &[2, 3]);
    for idx in w.indices() {
        let mut rng = w.begin_case(idx, "ipfix-stream");
        if idx % 64 == 63 {
            c05_finding_families(w, &mut rng, idx / 64);
            continue;
        }
        let cfg = stream_cfg(&mut rng);
        let mut ex = Exporter::new();
        let mut other = Exporter::new();
        let mut last_domain: u32 = rng.b32();
        let mut sut = Sut::new(1);
        let n = 2 + rng.usize(6);
        for _ in 0..n {
            if rng.chance(1, 10) {
                // a template record without fields (what RFC 7011 8.1 calls a withdrawal: of one id,
                // or - id 2 / 3 - of all templates / all options templates). This library learns
                // nothing from it and forgets nothing (C06): the stream goes on as if it had not
                // been sent.
                let options = rng.chance(1, 2);
                let ids: Vec<u16> = ex.ix_t.keys().chain(ex.ix_o.keys()).cloned().collect();
                let id = match rng.below(3) {
                    0 => if options { 3 } else { 2 },
                    1 if !ids.is_empty() => *rng.pick(&ids),
                    _ => rng.range(256, 65535) as u16,
                };
                let mut body = vec![];
                body.extend_from_slice(&id.to_be_bytes());
                body.extend_from_slice(&[0, 0]);
                if options {
                    body.extend_from_slice(&[0, 0]);
                }
                let m = IpfixMsg { export_time: rng.b32(), seq: rng.b32(), domain: rng.b32(), sets: vec![IpfixSet::Orphan { id: if options { 3 } else { 2 }, body }] };
                sut.parse(0, &m.wire());
                w.rep.count("withdrawal_shaped_messages", 1);
            }
            if rng.chance(1, 5) {
                // a V9 packet of the same device (source id = the observation domain) over the same ids
                let mut p = other.v9_packet(&mut rng, &cfg, &w.pools);
                p.source_id = last_domain;
                sut.parse(0, &p.wire());
                w.rep.count("interleaved_v9_packets", 1);
            }
            if !ex.ix_t.is_empty() && rng.chance(1, 400) {
                // a long quiet spell (see C04): two to four thousand header-only IPFIX messages
                let m = 2100 + rng.usize(1900);
                let mut idle = Vec::with_capacity(16 * m);
                for i in 0..m {
                    idle.extend_from_slice(&[0, 10, 0, 16]);
                    idle.extend_from_slice(&rng.b32().to_be_bytes());
                    idle.extend_from_slice(&(i as u32).to_be_bytes());
                    idle.extend_from_slice(&last_domain.to_be_bytes());
                }
                let r = sut.parse(0, &idle);
                w.rep.count("idle_spells_of_header_only_messages", 1);
                if r.len() != m || r.iter().any(|e| !matches!(e, NetflowPacket::IPFix(_))) {
                    let d = div("ipfix/idle", "elements", format!("{} header-only IPFIX messages in one buffer returned {} elements", m, r.len()));
                    w.rep.violation(sig("C05", &d), &d, sut.replay_json());
                    break;
                }
            }
            let msg = ex.ipfix_msg(&mut rng, &cfg, &w.pools);
            last_domain = msg.domain;
            let wire = msg.wire();
            w.rep.count("packets", 1);
            w.rep.count(&format!("sets_per_message.{}", msg.sets.len()), 1);
            let verdict = parse_one(&mut sut, &wire, "ipfix").and_then(|e| match &e {
                NetflowPacket::IPFix(v) => check_ipfix(&msg, v, &mut st),
                other => Err(div("ipfix", "kind", format!("decoded as {}", crate::observe::kind(other)))),
            });
            match verdict {
                Ok(()) => w.rep.shape(&ipfix_shape(&msg)),
                Err(d) => {
                    w.rep.violation(sig("C05", &d), &d, sut.replay_json());
                    break;
                }
            }
        }
        if w.rep.samples.len() < 2 {
            w.rep.sample(json!({"stream": "ipfix", "packets": n, "replay": sut.replay_json()}));
        }
        for (k, c) in std::mem::take(&mut st.findings) {
            let r = sut.replay_json();
            for _ in 0..c {
                w.rep.finding(&k, || r.clone());
            }
        }
    }
    flush_truth_stats(w, &st);
}

// ------------------------------------------------------------------------------------ C09 / C10

use netflow_parser::variable_versions::data_number::{DataNumber, FieldValue};

/// Does a decoded value belong to a kind whose re-export is a *listed* lossy class?
/// (Only such values can legitimately make an accepted packet differ from its input.)
fn lossy_capable(v: &FieldValue, ipfix: bool) -> bool {
    match v {
        FieldValue::Duration(_) | FieldValue::MacAddr(_) => true,
        FieldValue::String(s) => s.contains('\u{FFFD}'),
        FieldValue::ProtocolType(p) => format!("{:?}", p) == "Unknown",
        FieldValue::DataNumber(DataNumber::I32(_)) => ipfix,
        _ => false,
    }
}

/// M-rt on packets that were accepted although no abstract stream exists for them (hostile,
/// mutated, corpus): re-export must reproduce the consumed bytes exactly unless the decoded
/// packet visibly contains a value of a listed lossy class (then the packet is not judged).
fn hostile_roundtrip(w: &mut W, prop: &str, want_v9: bool) {
    use super::common::{hostile_history, make_parsers};
    let idxs = w.indices();
    for idx in idxs {
        if idx % 2 == 0 {
            continue;
        }
        let mut rng = w.begin_case(idx, "accepted-hostile");
        let h = hostile_history(&mut rng, &w.pools, &w.corpus);
        let mut sut = Sut::new(0);
        sut.parsers = make_parsers(&h);
        for (i, (p, b)) in h.ops.iter().enumerate() {
            h.reconfigure(i, &mut sut);
            // ids whose governing IPFIX template has a variable-length field, before the call
            let varlen_before: std::collections::BTreeSet<u16> = {
                let c = &sut.parsers[*p].ipfix_parser;
                c.templates.iter().filter(|(_, t)| t.fields.iter().any(|x| x.field_length == 65535)).map(|(k, _)| *k).chain(c.options_templates.iter().filter(|(_, t)| t.fields.iter().any(|x| x.field_length == 65535)).map(|(k, _)| *k)).collect()
            };
            let r = std::panic::catch_unwind(std::panic::AssertUnwindSafe(|| sut.parse(*p, b)));
            let res = match r {
                Ok(r) => r,
                Err(_) => {
                    crate::util::take_panic();
                    w.rep.panics_foreign += 1;
                    break;
                }
            };
            let allowed = sut.parsers[*p].allowed_versions.clone();
            let acct = match crate::observe::account(b, &res, &allowed) {
                Ok(a) => a,
                Err(_) => break, // C02's domain
            };
            let mut bad: Option<Div> = None;
            for (e, span) in res.iter().zip(acct.spans.iter()) {
                let orig = &b[span.0..span.1];
                match (e, want_v9) {
                    (NetflowPacket::V9(v), true) => {
                        w.rep.count("accepted_hostile_packets", 1);
                        let taint: Vec<bool> = v
                            .flowsets
                            .iter()
                            .map(|f| match &f.body {
                                netflow_parser::variable_versions::v9::FlowSetBody::Data(d) => d.fields.iter().any(|r| r.values().any(|(_, x)| lossy_capable(x, false))),
                                _ => false,
                            })
                            .collect();
                        if taint.iter().any(|t| *t) {
                            // Flowsets that visibly hold a value of a listed lossy class are left out; the
                            // others must still re-export to exactly the bytes they occupied.
                            w.rep.count("accepted_hostile_not_judged_lossy_value_present", 1);
                            let mut part = v.clone();
                            let mut want: Vec<u8> = orig[..20.min(orig.len())].to_vec();
                            let mut off = 20usize;
                            let mut kept = vec![];
                            for (f, t) in v.flowsets.iter().zip(taint.iter()) {
                                let l = (f.header.length as usize).max(4);
                                if !*t && off + l <= orig.len() {
                                    want.extend_from_slice(&orig[off..off + l]);
                                    kept.push(f.clone());
                                }
                                off += l;
                            }
                            if kept.is_empty() {
                                continue;
                            }
                            w.rep.count("accepted_hostile_flowsets_judged_in_lossy_packets", kept.len() as u64);
                            part.flowsets = kept;
                            match part.to_be_bytes() {
                                Ok(o) if o == want => {}
                                Ok(o) => {
                                    let at = o.iter().zip(want.iter()).position(|(x, y)| x != y).unwrap_or(o.len().min(want.len()));
                                    bad = Some(div("v9/accepted/export", "bytes", format!("the {} flowsets of an accepted V9 packet that hold no value of a listed lossy class re-export as {} bytes instead of the {} they occupied, first difference at offset {}", part.flowsets.len(), o.len(), want.len(), at)));
                                }
                                Err(e) => bad = Some(div("v9/accepted/export", "failed", format!("to_be_bytes failed: {}", e))),
                            }
                            if bad.is_some() {
                                break;
                            }
                            continue;
                        }
                        match v.to_be_bytes() {
                            Ok(o) if o == orig => w.rep.count("accepted_hostile_roundtrip_exact", 1),
                            Ok(o) => {
                                let at = o.iter().zip(orig.iter()).position(|(x, y)| x != y).unwrap_or(o.len().min(orig.len()));
                                bad = Some(div("v9/accepted/export", "bytes", format!("accepted V9 packet of {} bytes re-exports as {} bytes, first difference at offset {}; no value of a listed lossy class is present", orig.len(), o.len(), at)));
                            }
                            Err(e) => bad = Some(div("v9/accepted/export", "failed", format!("to_be_bytes failed: {}", e))),
                        }
                    }
                    (NetflowPacket::IPFix(v), false) => {
                        use netflow_parser::variable_versions::ipfix as ix;
                        w.rep.count("accepted_hostile_packets", 1);
                        let cache = &sut.parsers[*p].ipfix_parser;
                        let mut tainted = false;
                        let mut covered = 16usize;
                        let mut taint: Vec<bool> = vec![];
                        for f in &v.flowsets {
                            let tainted_before = tainted;
                            tainted = false;
                            covered += (f.header.length as usize).max(4);
                            let (fields, id) = match &f.body {
                                ix::FlowSetBody::Data(d) => (Some(&d.fields), f.header.header_id),
                                ix::FlowSetBody::OptionsData(d) => (Some(&d.fields), f.header.header_id),
                                _ => (None, 0),
                            };
                            if let Some(fields) = fields {
                                if fields.iter().any(|r| r.values().any(|(_, x)| lossy_capable(x, true))) {
                                    tainted = true;
                                }
                                // variable-length fields lose their prefix (listed): visible in the governing template
                                let varlen = cache.templates.get(&id).map(|t| t.fields.iter().any(|x| x.field_length == 65535)).unwrap_or(false) || cache.options_templates.get(&id).map(|t| t.fields.iter().any(|x| x.field_length == 65535)).unwrap_or(false);
                                // the governing template may have been (re)defined anywhere in this call:
                                // then neither cache snapshot is known to be the one that governed this set
                                let redefined = res.iter().any(|e2| match e2 {
                                    NetflowPacket::IPFix(m) => m.flowsets.iter().any(|g| matches!(&g.body, ix::FlowSetBody::Template(t) if t.template_id == id) || matches!(&g.body, ix::FlowSetBody::OptionsTemplate(t) if t.template_id == id)),
                                    _ => false,
                                });
                                if varlen || redefined || varlen_before.contains(&id) {
                                    tainted = true;
                                }
                            }
                            taint.push(tainted);
                            tainted = tainted || tainted_before;
                        }
                        // sets after an undecodable set / trailing bytes inside the message are dropped (listed)
                        let incomplete = covered != (v.header.length as usize).max(16);
                        if incomplete {
                            tainted = true;
                        }
                        if tainted {
                            // Sets that fall under a listed class are left out; the others must still
                            // re-export to exactly the bytes they occupied (the header is written from
                            // the decoded header, whose length field is the received one).
                            w.rep.count("accepted_hostile_not_judged_listed_class_present", 1);
                            let mut part = v.clone();
                            let mut want: Vec<u8> = orig[..16.min(orig.len())].to_vec();
                            let mut off = 16usize;
                            let mut kept = vec![];
                            for (f, t) in v.flowsets.iter().zip(taint.iter()) {
                                let l = (f.header.length as usize).max(4);
                                if !*t && off + l <= orig.len() {
                                    want.extend_from_slice(&orig[off..off + l]);
                                    kept.push(f.clone());
                                }
                                off += l;
                            }
                            if kept.is_empty() {
                                continue;
                            }
                            w.rep.count("accepted_hostile_flowsets_judged_in_lossy_packets", kept.len() as u64);
                            part.flowsets = kept;
                            match part.to_be_bytes() {
                                Ok(o) if o == want => {}
                                Ok(o) => {
                                    let at = o.iter().zip(want.iter()).position(|(x, y)| x != y).unwrap_or(o.len().min(want.len()));
                                    bad = Some(div("ipfix/accepted/export", "bytes", format!("the {} sets of an accepted IPFIX message to which no listed lossy class applies re-export as {} bytes instead of the {} they occupied, first difference at offset {}", part.flowsets.len(), o.len(), want.len(), at)));
                                }
                                Err(e) => bad = Some(div("ipfix/accepted/export", "failed", format!("to_be_bytes failed: {}", e))),
                            }
                            if bad.is_some() {
                                break;
                            }
                            continue;
                        }
                        match v.to_be_bytes() {
                            Ok(o) if o == orig => w.rep.count("accepted_hostile_roundtrip_exact", 1),
                            Ok(o) => {
                                let at = o.iter().zip(orig.iter()).position(|(x, y)| x != y).unwrap_or(o.len().min(orig.len()));
                                bad = Some(div("ipfix/accepted/export", "bytes", format!("accepted IPFIX message of {} bytes re-exports as {} bytes, first difference at offset {}; no listed lossy class applies", orig.len(), o.len(), at)));
                            }
                            Err(e) => bad = Some(div("ipfix/accepted/export", "failed", format!("to_be_bytes failed: {}", e))),
                        }
                    }
                    _ => {}
                }
                if bad.is_some() {
                    break;
                }
            }
            if let Some(d) = bad {
                w.rep.violation(sig(prop, &d), &d, sut.replay_json());
                break;
            }
        }
        w.rep.shape(&format!("accepted-hostile {} {}", h.family, sut.ops.len()));
    }
}

fn rt_record(w: &mut W, prop: &str, proto: &str, v: Result<RtVerdict, Div>, sut: &Sut) -> bool {
    match v {
        Ok(RtVerdict::Exact) => {
            w.rep.count("roundtrip_exact", 1);
            true
        }
        Ok(RtVerdict::Modelled(classes)) => {
            w.rep.count("roundtrip_equal_to_listed_model", 1);
            for c in classes {
                let s = format!("{}|{}|export|cell|{}", prop, proto, c);
                w.rep.finding(&s, || sut.replay_json());
            }
            true
        }
        Err(d) => {
            w.rep.violation(sig(prop, &d), &d, sut.replay_json());
            false
        }
    }
}

pub fn run_c09(w: &mut W) {
    hostile_roundtrip(w, "C09", true);
    for idx in w.indices() {
        if idx % 2 == 1 {
            continue;
        }
        let mut rng = w.begin_case(idx, "v9-stream");
        let mut cfg = stream_cfg(&mut rng);
        cfg.odd_padding = rng.chance(1, 2);
        let mut ex = Exporter::new();
        let mut sut = Sut::new(1);
        let n = 2 + rng.usize(6);
        for _ in 0..n {
            let pkt = ex.v9_packet(&mut rng, &cfg, &w.pools);
            let wire = pkt.wire();
            w.rep.count("packets", 1);
            w.rep.count("bytes", wire.len() as u64);
            let e = match parse_one(&mut sut, &wire, "v9") {
                Ok(e) => e,
                Err(_) => {
                    // decoding conformant packets is C04's domain
                    w.rep.inconclusive += 1;
                    break;
                }
            };
            let v = match &e {
                NetflowPacket::V9(v) => v,
                _ => {
                    w.rep.inconclusive += 1;
                    break;
                }
            };
            let model = model_v9(&pkt);
            let got = v.to_be_bytes().map_err(|e| e.to_string());
            if got.is_err() {
                w.rep.count("to_be_bytes_failed", 1);
            }
            for f in &pkt.flowsets {
                if let V9FlowSet::Data { padding, .. } = f {
                    w.rep.count(&format!("data_padding_len.{}", padding.len()), 1);
                }
            }
            if !rt_record(w, "C09", "v9", judge(&model, &wire, &got), &sut) {
                break;
            }
            w.rep.shape(&v9_shape(&pkt));
        }
        if w.rep.samples.len() < 2 {
            w.rep.sample(json!({"stream": "v9", "packets": n, "replay": sut.replay_json()}));
        }
    }
}

pub fn run_c10(w: &mut W) {
    hostile_roundtrip(w, "C10", false);
    for idx in w.indices() {
        if idx % 2 == 1 {
            continue;
        }
        let mut rng = w.begin_case(idx, "ipfix-stream");
        let mut cfg = stream_cfg(&mut rng);
        cfg.odd_padding = rng.chance(1, 2);
        let mut ex = Exporter::new();
        let mut sut = Sut::new(1);
        let n = 2 + rng.usize(6);
        for _ in 0..n {
            let msg = ex.ipfix_msg(&mut rng, &cfg, &w.pools);
            let wire = msg.wire();
            w.rep.count("packets", 1);
            w.rep.count("bytes", wire.len() as u64);
            let e = match parse_one(&mut sut, &wire, "ipfix") {
                Ok(e) => e,
                Err(_) => {
                    w.rep.inconclusive += 1;
                    break;
                }
            };
            let v = match &e {
                NetflowPacket::IPFix(v) => v,
                _ => {
                    w.rep.inconclusive += 1;
                    break;
                }
            };
            let model = model_ipfix(&msg);
            let got = v.to_be_bytes().map_err(|e| e.to_string());
            if got.is_err() {
                w.rep.count("to_be_bytes_failed", 1);
            }
            if !rt_record(w, "C10", "ipfix", judge(&model, &wire, &got), &sut) {
                break;
            }
            w.rep.shape(&ipfix_shape(&msg));
        }
        if w.rep.samples.len() < 2 {
            w.rep.sample(json!({"stream": "ipfix", "packets": n, "replay": sut.replay_json()}));
        }
    }
}
