//! Shared workload pieces: histories (parsers with allowed sets + ordered parse_bytes calls).

use crate::gen_conf::{Cfg, Exporter, Pools};
use crate::gen_host::{conformant_packet, mutate, Hostile};
use crate::rng::Rng;
use netflow_parser::NetflowParser;
use std::collections::HashSet;

/// the set of all 65 536 version numbers (built once per process, cloned per use)
pub fn all_versions() -> HashSet<u16> {
    static ALL: std::sync::OnceLock<HashSet<u16>> = std::sync::OnceLock::new();
    ALL.get_or_init(|| (0..=65535u16).collect()).clone()
}

#[derive(Clone, Debug)]
pub enum Allowed {
    Default,
    Set(Vec<u16>),
    All,
}

impl Allowed {
    pub fn gen(rng: &mut Rng) -> Allowed {
        match rng.below(10) {
            0..=5 => Allowed::Default,
            6 => Allowed::All,
            _ => {
                let mut v = vec![];
                for x in [5u16, 7, 9, 10] {
                    if rng.chance(1, 2) {
                        v.push(x);
                    }
                }
                if rng.chance(1, 3) {
                    v.push(*rng.pick(&[0u16, 1, 8, 11, 255, 0xffff]));
                }
                Allowed::Set(v)
            }
        }
    }
    pub fn apply(&self, p: &mut NetflowParser) {
        match self {
            Allowed::Default => {}
            Allowed::Set(v) => p.allowed_versions = v.iter().cloned().collect::<HashSet<u16>>(),
            Allowed::All => p.allowed_versions = all_versions(),
        }
    }
    pub fn shape(&self) -> String {
        match self {
            Allowed::Default => "default".into(),
            Allowed::All => "all".into(),
            Allowed::Set(v) => format!("{:?}", v),
        }
    }
}

#[derive(Clone, Debug)]
pub struct History {
    pub family: &'static str,
    pub parsers: Vec<Allowed>,
    pub ops: Vec<(usize, Vec<u8>)>,
    /// the application assigns a new set to the public `allowed_versions` field of a parser between
    /// two calls: (index of the op it precedes, parser, new set)
    pub reconf: Vec<(usize, usize, Allowed)>,
}

impl History {
    /// apply the reassignments that precede op `i`
    pub fn reconfigure(&self, i: usize, sut: &mut crate::ctx::Sut) {
        for (at, p, a) in &self.reconf {
            if *at == i && *p < sut.parsers.len() {
                sut.set_allowed(*p, a);
            }
        }
    }
}

pub fn hostile_history(rng: &mut Rng, pools: &Pools, corpus: &[Vec<Vec<u8>>]) -> History {
    let np = if rng.chance(1, 4) { 1 + rng.usize(3) } else { 1 };
    let parsers: Vec<Allowed> = (0..np).map(|_| Allowed::gen(rng)).collect();
    let fam = rng.below(100);
    let mut ops = vec![];
    let family;
    if fam < 40 {
        family = "host";
        let mut h = Hostile::new();
        let n = 1 + rng.usize(8);
        for _ in 0..n {
            ops.push((rng.usize(np), h.buffer(rng, pools)));
        }
    } else if fam < 65 {
        family = "mut";
        let mut ex = Exporter::new();
        let mut cfg = Cfg::default();
        cfg.twins = rng.chance(1, 6);
        let n = 1 + rng.usize(8);
        let mut prev: Vec<u8> = vec![];
        for _ in 0..n {
            let b = conformant_packet(rng, &mut ex, &cfg, pools);
            let m = if rng.chance(2, 3) { mutate(rng, &b, &prev) } else { b.clone() };
            prev = b;
            ops.push((rng.usize(np), m));
        }
    } else if fam < 75 && !corpus.is_empty() {
        family = "corp";
        let h = &corpus[rng.usize(corpus.len())];
        let other = &corpus[rng.usize(corpus.len())];
        let mutate_it = rng.chance(1, 2);
        for (i, b) in h.iter().enumerate() {
            let o = other.get(i).cloned().unwrap_or_default();
            let b = if mutate_it && rng.chance(1, 3) { mutate(rng, b, &o) } else { b.clone() };
            ops.push((rng.usize(np), b));
        }
    } else if fam < 80 {
        // buffers packed with minimal packets of every version (header-only IPFIX messages whose
        // length field says 0..=19, V5/V7/V9 with count 0), 2..400 of them, optionally with a short tail
        family = "minchain";
        let n = 1 + rng.usize(3);
        for _ in 0..n {
            let k = match rng.below(4) {
                0 => 2 + rng.usize(8),
                1 => 8 + rng.usize(60),
                _ => 2 + rng.usize(400),
            };
            let mono: Option<u16> = if rng.chance(1, 2) { Some(*rng.pick(&[5u16, 7, 9, 10, 10])) } else { None };
            let mut b = vec![];
            for _ in 0..k {
                let v = mono.unwrap_or_else(|| *rng.pick(&[5u16, 7, 9, 10]));
                b.extend_from_slice(&v.to_be_bytes());
                match v {
                    10 => {
                        let l: u16 = if rng.chance(1, 3) { rng.below(20) as u16 } else { 16 };
                        b.extend_from_slice(&l.to_be_bytes());
                        b.extend(rng.bytes(12));
                    }
                    9 => {
                        b.extend_from_slice(&[0, 0]);
                        b.extend(rng.bytes(16));
                    }
                    _ => {
                        b.extend_from_slice(&[0, 0]);
                        b.extend(rng.bytes(20));
                    }
                }
            }
            if rng.chance(1, 4) {
                let t = 1 + rng.usize(15);
                b.extend(rng.bytes(t));
            }
            b.truncate(65535);
            ops.push((rng.usize(np), b));
        }
    } else if fam < 84 {
        // nesting: a whole packet (often the exporter's next one) carried as the body of an extra
        // flowset / set of another packet, under an id that is a version number, a cached template
        // id or anything else; then the same packet on its own
        family = "nest";
        let mut ex = Exporter::new();
        let mut cfg = Cfg::default();
        cfg.count_is_flowsets = true;
        let n = 1 + rng.usize(4);
        for _ in 0..n {
            let outer = conformant_packet(rng, &mut ex, &cfg, pools);
            let inner = conformant_packet(rng, &mut ex, &cfg, pools);
            let mut b = outer.clone();
            let ver = if b.len() >= 2 { u16::from_be_bytes([b[0], b[1]]) } else { 0 };
            let id: u16 = match rng.below(5) {
                0 => 9,
                1 => 10,
                2 => 5,
                3 => 256 + rng.below(4) as u16,
                _ => rng.u16(),
            };
            let body: Vec<u8> = if rng.chance(1, 2) && inner.len() > 4 { inner[4..].to_vec() } else { inner.clone() };
            if body.len() + 4 <= 65535 && b.len() + body.len() + 4 <= 65535 {
                if ver == 9 && b.len() >= 20 {
                    let c = u16::from_be_bytes([b[2], b[3]]).wrapping_add(1);
                    b[2..4].copy_from_slice(&c.to_be_bytes());
                    b.extend_from_slice(&id.to_be_bytes());
                    b.extend_from_slice(&((body.len() + 4) as u16).to_be_bytes());
                    b.extend_from_slice(&body);
                } else if ver == 10 && b.len() >= 16 {
                    let l = (b.len() + body.len() + 4) as u16;
                    b[2..4].copy_from_slice(&l.to_be_bytes());
                    b.extend_from_slice(&id.to_be_bytes());
                    b.extend_from_slice(&((body.len() + 4) as u16).to_be_bytes());
                    b.extend_from_slice(&body);
                }
            }
            if rng.chance(1, 2) {
                b.extend_from_slice(&inner);
                b.truncate(65535);
            }
            ops.push((rng.usize(np), b));
        }
    } else {
        family = "conf";
        let mut ex = Exporter::new();
        let mut cfg = Cfg::default();
        cfg.count_is_flowsets = rng.chance(1, 2);
        cfg.twins = rng.chance(1, 6);
        let n = 1 + rng.usize(6);
        for _ in 0..n {
            let k = if rng.chance(1, 4) { 1 + rng.usize(4) } else { 1 };
            let mut b = vec![];
            for _ in 0..k {
                b.extend(conformant_packet(rng, &mut ex, &cfg, pools));
            }
            b.truncate(65535);
            ops.push((rng.usize(np), b));
        }
    }
    // one history in eight reassigns allowed_versions in mid-stream - often to a different set of
    // the same size as the one in force
    let mut reconf = vec![];
    if ops.len() >= 2 && rng.chance(1, 8) {
        for _ in 0..(1 + rng.usize(2)) {
            let at = 1 + rng.usize(ops.len() - 1);
            let p = rng.usize(np);
            let a = match rng.below(4) {
                0 => Allowed::Default,
                1 => Allowed::Set(vec![*rng.pick(&[5u16, 7, 9, 10]), *rng.pick(&[5u16, 7, 9, 10, 11])]),
                2 => {
                    // four members like the default, one of them different
                    let mut v = vec![5u16, 7, 9, 10];
                    let i = rng.usize(4);
                    v[i] = *rng.pick(&[0u16, 1, 8, 11, 255]);
                    Allowed::Set(v)
                }
                _ => Allowed::gen(rng),
            };
            reconf.push((at, p, a));
        }
    }
    History { family, parsers, ops, reconf }
}

pub fn make_parsers(h: &History) -> Vec<NetflowParser> {
    h.parsers
        .iter()
        .map(|a| {
            let mut p = NetflowParser::default();
            a.apply(&mut p);
            p
        })
        .collect()
}
