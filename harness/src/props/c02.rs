//! C02 - results account for every input byte (M-acct on every hostile, mutated, corpus and
//! conformant buffer, all allowed sets, all cache states reached by the history).

use super::common::{hostile_history, make_parsers};
use crate::ctx::{sig, Sut};
use crate::observe::{account, kind, Ending};
use crate::worker::W;
use serde_json::json;
use std::panic::{catch_unwind, AssertUnwindSafe};

pub fn run(w: &mut W) {
    // every extreme-size input and the id-space histories once per run
    let mut oneoffs: Vec<(&'static str, Vec<Vec<u8>>)> = crate::gen_host::extremes();
    oneoffs.extend(super::idspace::histories(w));
    for (j, (name, bufs)) in oneoffs.into_iter().enumerate() {
        if !w.oneoff(j as u64) {
            continue;
        }
        let _ = w.begin_case(crate::worker::ONEOFF + j as u64, name);
        w.rep.count(&format!("extreme.{}", name), 1);
        let h = super::common::History { family: "ext", parsers: vec![super::common::Allowed::Default], ops: bufs.into_iter().map(|b| (0usize, b)).collect(), reconf: vec![] };
        account_history(w, h);
    }
    for idx in w.indices() {
        let mut rng = w.begin_case(idx, "history");
        let h = hostile_history(&mut rng, &w.pools, &w.corpus);
        account_history(w, h);
    }
}

fn account_history(w: &mut W, h: super::common::History) {
    {
        let mut sut = Sut::new(0);
        sut.parsers = make_parsers(&h);
        let mut shape = String::from(h.family);
        let mut nontrivial = false;
        for (i, (p, b)) in h.ops.iter().enumerate() {
            h.reconfigure(i, &mut sut);
            let r = catch_unwind(AssertUnwindSafe(|| sut.parse(*p, b)));
            let res = match r {
                Ok(r) => r,
                Err(_) => {
                    crate::util::take_panic();
                    w.rep.panics_foreign += 1;
                    break;
                }
            };
            w.rep.count("buffers", 1);
            w.rep.count("elements", res.len() as u64);
            let allowed = sut.parsers[*p].allowed_versions.clone();
            match account(b, &res, &allowed) {
                Ok(a) => {
                    w.rep.count("bytes_accounted", a.end_offset as u64);
                    let e = match a.ending {
                        Ending::Clean => "clean",
                        Ending::Error => "error",
                        Ending::SilentStop(_) => "silent-stop",
                        Ending::Empty => "empty",
                    };
                    w.rep.count(&format!("ending.{}", e), 1);
                    shape.push('|');
                    for x in &res {
                        shape.push_str(kind(x));
                        shape.push(',');
                    }
                    shape.push_str(e);
                    if !res.is_empty() {
                        nontrivial = true;
                    }
                    // sets / flowsets with a length field < 4 seen in accepted packets
                    for x in &res {
                        match x {
                            netflow_parser::NetflowPacket::V9(v) => {
                                let n = v.flowsets.iter().filter(|f| f.header.length < 4).count();
                                w.rep.count("v9_flowset_length_lt4", n as u64);
                            }
                            netflow_parser::NetflowPacket::IPFix(v) => {
                                if v.header.length < 16 {
                                    w.rep.count("ipfix_length_lt16", 1);
                                }
                            }
                            _ => {}
                        }
                    }
                }
                Err(d) => {
                    let s = sig("C02", &d);
                    w.rep.violation(s, &d, sut.replay_json());
                    break;
                }
            }
        }
        if nontrivial {
            w.rep.shape(&shape);
            if w.rep.samples.len() < 3 {
                w.rep.sample(json!({"family": h.family, "shape": shape, "replay": sut.replay_json()}));
            }
        } else {
            w.rep.trivial += 1;
        }
    }
}
