//! History-based checks: C06 (M-cache + M-truth), C07 (withheld templates), C11 (M-split),
//! C12 (M-filter), C14 (M-trunc).

use super::streams::{ipfix_shape, v9_shape};
use crate::ast::*;
use crate::ctx::{sig, Sut};
use crate::gen_conf::{fixed_pkt, Cfg, Exporter, Pools};
use crate::observe::{account, canon, clone_parser, kind, snap, Snap};
use crate::rng::Rng;
use crate::truth::{check_ipfix, check_v9, div, Div, Stats};
use crate::worker::W;
use netflow_parser::{NetflowPacket, NetflowParser};
use serde_json::json;

/// one self-delimiting packet from the exporter model
pub fn seq_packet(rng: &mut Rng, ex: &mut Exporter, cfg: &Cfg, pools: &Pools) -> Pkt {
    match rng.below(10) {
        0 => {
            let n = rng.usize(4);
            Pkt::Fixed(fixed_pkt(rng, 5, n))
        }
        1 => {
            let n = rng.usize(4);
            Pkt::Fixed(fixed_pkt(rng, 7, n))
        }
        2..=5 => Pkt::V9(ex.v9_packet(rng, cfg, pools)),
        _ => Pkt::Ipfix(ex.ipfix_msg(rng, cfg, pools)),
    }
}

pub fn seq_cfg(rng: &mut Rng) -> Cfg {
    let mut cfg = Cfg::default();
    cfg.count_is_flowsets = true;
    cfg.small_ids = rng.chance(2, 3);
    cfg.cross_kind = rng.chance(1, 2);
    cfg.max_records = 4;
    cfg.max_fields = 6;
    cfg.odd_padding = rng.chance(1, 3);
    cfg
}

fn pkt_shape(p: &Pkt) -> String {
    match p {
        Pkt::Fixed(f) => format!("v{}x{}", f.version, f.records.len()),
        Pkt::V9(v) => v9_shape(v),
        Pkt::Ipfix(m) => ipfix_shape(m),
    }
}

fn snap_eq(a: &Snap, b: &Snap) -> bool {
    a == b
}

fn snap_diff(a: &Snap, b: &Snap) -> String {
    let mut out = vec![];
    for (name, x, y) in [("v9.templates", &a.v9_t, &b.v9_t), ("v9.options_templates", &a.v9_o, &b.v9_o), ("ipfix.templates", &a.ix_t, &b.ix_t), ("ipfix.options_templates", &a.ix_o, &b.ix_o)] {
        if x != y {
            let kx: Vec<_> = x.keys().collect();
            let ky: Vec<_> = y.keys().collect();
            let changed: Vec<_> = x.iter().filter(|(k, v)| y.get(k).map(|w| w != *v).unwrap_or(false)).map(|(k, _)| *k).collect();
            out.push(format!("{}: keys {:?} vs {:?}, changed entries {:?}", name, kx, ky, changed));
        }
    }
    out.join("; ")
}

// ------------------------------------------------------------------------------------ C11

/// Feed `wires` to a fresh parser cut into calls by `mask` (bit i set = cut after packet i).
fn run_partition(wires: &[Vec<u8>], mask: u128, sut: &mut Sut) -> (String, Snap, usize) {
    let mut all: Vec<NetflowPacket> = vec![];
    let mut buf: Vec<u8> = vec![];
    let mut flows = 0usize;
    for (i, w) in wires.iter().enumerate() {
        buf.extend_from_slice(w);
        let last = i + 1 == wires.len();
        if last || (mask >> i) & 1 == 1 {
            let mut c = clone_parser(&sut.parsers[0]);
            flows += c.parse_bytes_as_netflow_common_flowsets(&buf).len();
            all.extend(sut.parse(0, &buf));
            buf.clear();
        }
    }
    (canon(&all), snap(&sut.parsers[0]), flows)
}

pub fn run_c11(w: &mut W) {
    let max_exh = if w.thorough { 8 } else { 6 };
    for idx in w.indices() {
        let mut rng = w.begin_case(idx, "sequence");
        let mut cfg = seq_cfg(&mut rng);
        // template ids below 256 (the library accepts them), among them 5, 7, 9 and 10: a flowset
        // header that starts with the bytes of a version word is still a flowset header
        cfg.low_ids = rng.chance(1, 4);
        let mut ex = Exporter::new();
        let long = rng.chance(1, 40);
        let n = if long { 20 + rng.usize(60) } else { 1 + rng.usize(max_exh) };
        let mut pkts: Vec<Pkt> = vec![];
        let minimal = !long && rng.chance(1, 20);
        let n = if minimal { 6 + rng.usize(10) } else { n };
        for _ in 0..n {
            if minimal {
                // header-only packets, mostly 16-byte IPFIX messages: as many packets per byte as a
                // buffer can hold
                let p = match rng.below(6) {
                    0 => Pkt::Fixed(fixed_pkt(&mut rng, 5, 0)),
                    1 => Pkt::V9(V9Pkt { count: 0, sys_up_time: rng.b32(), unix_secs: rng.b32(), seq: rng.b32(), source_id: rng.b32(), flowsets: vec![] }),
                    _ => Pkt::Ipfix(IpfixMsg { export_time: rng.b32(), seq: rng.b32(), domain: rng.b32(), sets: vec![] }),
                };
                pkts.push(p);
                continue;
            }
            // retransmissions: an exporter may send the very same datagram again
            if !pkts.is_empty() && rng.chance(1, 6) {
                let prev = pkts[pkts.len() - 1].clone();
                pkts.push(prev);
                w.rep.count("verbatim_repeats", 1);
            } else {
                pkts.push(seq_packet(&mut rng, &mut ex, &cfg, &w.pools));
            }
        }
        // one sequence in a hundred carries a V5/V7 packet larger than a datagram (counts up to 65535
        // are legal in the header and parse_bytes accepts any slice) in a position that is not last
        let oversize = !long && rng.chance(1, 100);
        if oversize {
            pkts.truncate(3);
            let ver = if rng.chance(1, 2) { 5 } else { 7 };
            let cnt = if ver == 5 { 1365 + rng.usize(700) } else { 1260 + rng.usize(700) };
            let at = rng.usize(pkts.len());
            pkts.insert(at, Pkt::Fixed(fixed_pkt(&mut rng, ver, cnt)));
            w.rep.count("sequences_with_a_packet_beyond_the_datagram_limit", 1);
        }
        // one sequence in eight runs under a restricted allowed set; packets of versions outside it
        // are moved to the end of the sequence (a filtered packet ends a chained parse by design, so
        // the equivalence is stated for sequences in which nothing allowed follows it)
        let restricted: Option<Vec<u16>> = if !oversize && rng.chance(1, 8) {
            let mut sset: Vec<u16> = [5u16, 7, 9, 10].iter().cloned().filter(|_| rng.chance(1, 2)).collect();
            if sset.is_empty() {
                sset.push(*rng.pick(&[5u16, 7, 9, 10]));
            }
            let (mut keep, drop): (Vec<Pkt>, Vec<Pkt>) = pkts.drain(..).partition(|p| sset.contains(&p.version()));
            keep.extend(drop);
            pkts = keep;
            w.rep.count("sequences_under_a_restricted_allowed_set", 1);
            Some(sset)
        } else {
            None
        };
        let mut wires: Vec<Vec<u8>> = pkts.iter().map(|p| p.wire()).collect();
        // stray octets inside an IPFIX message: the announced message length covers 1-3 bytes behind
        // the last set (too short for a set header; they may look like a version word). They belong
        // to the message wherever it stands in a buffer.
        if !minimal || rng.chance(1, 2) {
            for x in wires.iter_mut() {
                if x.len() >= 16 && x.len() < 65530 && x[0] == 0 && x[1] == 10 && rng.chance(1, 6) {
                    let k = 1 + rng.usize(3);
                    let mut stray = rng.bytes(k);
                    if k >= 2 && rng.chance(2, 3) {
                        stray[0] = 0;
                        stray[1] = *rng.pick(&[5u8, 7, 9, 10]);
                    }
                    x.extend(stray);
                    let l = (x.len() as u16).to_be_bytes();
                    x[2] = l[0];
                    x[3] = l[1];
                    w.rep.count("ipfix_messages_with_stray_octets_behind_the_last_set", 1);
                }
            }
        }
        // a packet that decodes to an error may only be last
        if rng.chance(1, 5) {
            let last = wires.last_mut().unwrap();
            if last.len() > 4 {
                let k = 3 + rng.usize(last.len() - 4);
                last.truncate(k);
            }
        }
        // keep the concatenation inside a datagram
        while !oversize && wires.iter().map(|x| x.len()).sum::<usize>() > 65535 && wires.len() > 1 {
            wires.pop();
            pkts.pop();
        }
        // Self-delimiting but malformed inside: an IPFIX message (delimited by its header length)
        // whose first set claims more bytes than the message has left. Delivered alone the set is
        // undecodable; in a chain it must not reach into the following packet.
        if !oversize && rng.chance(1, 6) {
            let cands: Vec<usize> = (0..wires.len()).filter(|i| wires[*i].len() >= 24 && wires[*i][0] == 0 && wires[*i][1] == 10).collect();
            if !cands.is_empty() {
                let i = *rng.pick(&cands);
                let left = wires[i].len() - 16;
                let claim = (left + 4 + rng.usize(60)).min(65535) as u16;
                wires[i][18..20].copy_from_slice(&claim.to_be_bytes());
                w.rep.count("sequences_with_an_overlong_ipfix_set", 1);
            }
        }
        // only the last packet of a sequence may decode to an error: cut the sequence after the
        // first packet that does so when delivered one per call
        {
            let mut probe = NetflowParser::default();
            if let Some(sset) = &restricted {
                probe.allowed_versions = sset.iter().cloned().collect();
            }
            let mut keep = wires.len();
            for (i, x) in wires.iter().enumerate() {
                let r = probe.parse_bytes(x);
                if r.iter().any(|e| e.is_error()) {
                    // ... unless the packet was decoded and the error is an *additional* element: every
                    // buffer here is exactly one self-delimiting packet, so whatever the library makes
                    // of it alone it has to make of it inside a chain; the partitions decide
                    if r.len() >= 2 && !r[0].is_error() {
                        w.rep.count("packets_returning_a_further_element_when_alone", 1);
                        continue;
                    }
                    keep = i + 1;
                    break;
                }
            }
            wires.truncate(keep);
            pkts.truncate(keep);
        }
        let n = wires.len();
        // reference: one packet per call
        let mut ref_sut = Sut::new(1);
        if let Some(sset) = &restricted {
            ref_sut.parsers[0].allowed_versions = sset.iter().cloned().collect();
        }
        let (ref_canon, ref_snap, ref_flows) = run_partition(&wires, u128::MAX, &mut ref_sut);
        let masks: Vec<u128> = if n <= max_exh {
            (0..(1u128 << (n - 1))).collect()
        } else {
            let mut m = vec![0u128];
            for _ in 0..16 {
                let r = ((rng.next() as u128) << 64) | rng.next() as u128;
                // sparse and dense cut patterns
                m.push(if rng.chance(1, 2) { r } else { r & (((rng.next() as u128) << 64) | rng.next() as u128) });
            }
            m
        };
        w.rep.count("sequences", 1);
        if minimal {
            w.rep.count("sequences_of_header_only_packets", 1);
        }
        w.rep.count(&format!("sequence_len.{}", n.min(9)), 1);
        if n <= max_exh {
            w.rep.count("sequences_with_all_partitions", 1);
        }
        let deps = pkts.iter().filter(|p| matches!(p, Pkt::V9(v) if v.flowsets.iter().any(|f| matches!(f, V9FlowSet::Data{..} | V9FlowSet::OptionsData{..}))) || matches!(p, Pkt::Ipfix(m) if m.sets.iter().any(|s| matches!(s, IpfixSet::Data{..})))).count();
        w.rep.count("packets_depending_on_cached_templates", deps as u64);
        for p in &pkts {
            w.rep.count(&format!("packets.v{}", p.version()), 1);
        }
        let mut ok = true;
        for m in &masks {
            let mut sut = Sut::new(1);
            if let Some(sset) = &restricted {
                sut.parsers[0].allowed_versions = sset.iter().cloned().collect();
            }
            let (c, s, f) = run_partition(&wires, *m, &mut sut);
            w.rep.count("partitions_executed", 1);
            let d = if c != ref_canon {
                Some(div("split/results", "differs", format!("partition mask {:#b} of {} packets returns different results than one packet per call (first difference at char {})", m, n, c.chars().zip(ref_canon.chars()).position(|(a, b)| a != b).unwrap_or(c.len().min(ref_canon.len())))))
            } else if !snap_eq(&s, &ref_snap) {
                Some(div("split/caches", "differs", format!("partition mask {:#b}: final caches differ: {}", m, snap_diff(&s, &ref_snap))))
            } else if f != ref_flows {
                Some(div("split/common-flowsets", "differs", format!("partition mask {:#b}: parse_bytes_as_netflow_common_flowsets yields {} flows, {} when delivered one per call", m, f, ref_flows)))
            } else {
                None
            };
            if let Some(d) = d {
                w.rep.violation(sig("C11", &d), &d, sut.replay_json());
                ok = false;
                break;
            }
        }
        if ok {
            let shape: String = pkts.iter().map(pkt_shape).collect::<Vec<_>>().join("+");
            w.rep.shape(&shape);
            if w.rep.samples.len() < 2 && n > 1 {
                w.rep.sample(json!({"packets": n, "partitions": masks.len(), "replay": ref_sut.replay_json()}));
            }
        }
    }
    w.rep.extra.insert("exhaustive_subspaces".into(), json!({"partitions": format!("all 2^(n-1) partitions for every sequence of n <= {} packets; 17 sampled partitions beyond", max_exh)}));
}

// ------------------------------------------------------------------------------------ C12

pub fn run_c12(w: &mut W) {
    for idx in w.indices() {
        let mut rng = w.begin_case(idx, "filter");
        let mut cfg = seq_cfg(&mut rng);
        // a third of the streams use the RFC 3954 header count (records, not flowsets): where such a
        // V9 packet ends inside a chain is the library's own business, but it must not depend on S
        cfg.count_is_flowsets = rng.chance(2, 3);
        let mut ex = Exporter::new();
        // common prior history (all versions allowed)
        let prior: Vec<Vec<u8>> = (0..rng.usize(4)).map(|_| seq_packet(&mut rng, &mut ex, &cfg, &w.pools).wire()).collect();
        // allowed set S
        let mut s: Vec<u16> = vec![];
        let subset = (idx % 16) as u16; // all 16 subsets of {5,7,9,10} in rotation
        for (b, v) in [5u16, 7, 9, 10].iter().enumerate() {
            if (subset >> b) & 1 == 1 {
                s.push(*v);
            }
        }
        let extra: Option<u16> = if rng.chance(1, 3) { Some(*rng.pick(&[0u16, 1, 8, 11, 255, 0xffff])) } else { None };
        if let Some(e) = extra {
            s.push(e);
        }
        // buffer: chained sequence, hostile buffer, or mutated
        let buf: Vec<u8> = match rng.below(6) {
            0 => {
                let mut h = crate::gen_host::Hostile::new();
                h.buffer(&mut rng, &w.pools)
            }
            1 => {
                let a = seq_packet(&mut rng, &mut ex, &cfg, &w.pools).wire();
                let b = seq_packet(&mut rng, &mut ex, &cfg, &w.pools).wire();
                crate::gen_host::mutate(&mut rng, &a, &b)
            }
            _ => {
                let n = 1 + rng.usize(6);
                let mut b = vec![];
                for _ in 0..n {
                    if let (Some(e), true) = (extra, rng.chance(1, 8)) {
                        // a packet of an allowed-but-unknown version
                        b.extend_from_slice(&e.to_be_bytes());
                        let k = rng.usize(12);
                        b.extend(rng.bytes(k));
                        break;
                    }
                    if rng.chance(1, 10) {
                        b.extend_from_slice(&(*rng.pick(&[0u16, 1, 6, 8, 11, 255])).to_be_bytes());
                        let k = rng.usize(12);
                        b.extend(rng.bytes(k));
                        break;
                    }
                    b.extend(seq_packet(&mut rng, &mut ex, &cfg, &w.pools).wire());
                }
                b.truncate(65535);
                b
            }
        };
        let mut sut = Sut::new(3);
        for p in &prior {
            sut.parse(0, p);
            sut.parse(1, p);
            sut.parse(2, p);
        }
        sut.parsers[0].allowed_versions = s.iter().cloned().collect();
        sut.parsers[1].allowed_versions = super::common::all_versions();
        sut.parsers[2].allowed_versions = super::common::all_versions();
        let ra = sut.parse(0, &buf);
        let rb = sut.parse(1, &buf);
        w.rep.count("pairs", 1);
        // the allowed set is the application's: a call must leave the public field as assigned
        {
            let now: std::collections::BTreeSet<u16> = sut.parsers[0].allowed_versions.iter().cloned().collect();
            let want: std::collections::BTreeSet<u16> = s.iter().cloned().collect();
            if now != want {
                let d = div("filter/allowed-set", "edited-by-the-library", format!("allowed_versions was assigned {:?}; after one parse_bytes call it holds {:?}", want, now));
                w.rep.violation(sig("C12", &d), &d, sut.replay_json());
                continue;
            }
        }
        w.rep.count(&format!("allowed_subset.{:04b}", subset), 1);
        let verdict: Result<(), Div> = (|| {
            // what the leading version word alone decides, stated without reference to any other
            // parser: not in S -> nothing at all; in S but not a version the library decodes -> exactly
            // one unknown-version error carrying the bytes after the word (and the whole buffer as
            // `remaining`)
            if buf.len() >= 2 {
                let v = u16::from_be_bytes([buf[0], buf[1]]);
                for (who, set_has, r) in [("S", s.contains(&v), &ra), ("all versions", true, &rb)] {
                    if !set_has {
                        w.rep.count("leading_word.filtered", 1);
                        if !r.is_empty() {
                            return Err(div("filter/leading-word", "not-filtered", format!("allowed {:?}: the buffer opens with version {} and yet {} element(s) were returned", s, v, r.len())));
                        }
                    } else if ![5u16, 7, 9, 10].contains(&v) {
                        w.rep.count("leading_word.unknown_version", 1);
                        let ok = r.len() == 1
                            && match &r[0] {
                                NetflowPacket::Error(e) => e.remaining[..] == buf[..] && matches!(&e.error, netflow_parser::NetflowParseError::UnknownVersion(b) if b[..] == buf[2..]),
                                _ => false,
                            };
                        if !ok {
                            return Err(div("filter/leading-word", "unknown-version", format!("allowed set ({}) contains {}, the buffer opens with it: expected one UnknownVersion error with the {} bytes after the word, got {:?}", who, v, buf.len() - 2, r.iter().map(kind).collect::<Vec<_>>())));
                        }
                    }
                }
            }
            let all: std::collections::HashSet<u16> = super::common::all_versions();
            let acct = match account(&buf, &rb, &all) {
                Ok(a) => a,
                Err(_) => {
                    // The all-allowed result does not decompose the buffer (C02's domain), so byte
                    // offsets are unknown - but each element still says which version it is: the
                    // result under S must be the all-allowed result up to the first element whose
                    // version is not in S (results only; the cache comparison needs offsets).
                    let ver = |e: &NetflowPacket| -> Option<u16> {
                        match e {
                            NetflowPacket::V5(_) => Some(5),
                            NetflowPacket::V7(_) => Some(7),
                            NetflowPacket::V9(_) => Some(9),
                            NetflowPacket::IPFix(_) => Some(10),
                            NetflowPacket::Error(x) if x.remaining.len() >= 2 => Some(u16::from_be_bytes([x.remaining[0], x.remaining[1]])),
                            _ => None,
                        }
                    };
                    let cut = rb.iter().position(|e| ver(e).map(|v| !s.contains(&v)).unwrap_or(false)).unwrap_or(rb.len());
                    w.rep.count("pairs_compared_without_offsets", 1);
                    if canon(&rb[..cut]) != canon(&ra) {
                        return Err(div("filter/results", "differs", format!("allowed {:?}: got {:?}, the all-allowed parser returns {:?} and its first element of a disallowed version is number {}", s, ra.iter().map(kind).collect::<Vec<_>>(), rb.iter().map(kind).collect::<Vec<_>>(), cut)));
                    }
                    return Ok(());
                }
            };
            // element index and byte offset of the first element whose version is not in S
            let mut cut_i = rb.len();
            let mut cut_off = buf.len();
            let mut off = 0usize;
            for (i, e) in rb.iter().enumerate() {
                let start = if e.is_error() { acct.end_offset } else { acct.spans[i].0 };
                if buf.len() - start >= 2 {
                    let v = u16::from_be_bytes([buf[start], buf[start + 1]]);
                    if !s.contains(&v) {
                        cut_i = i;
                        cut_off = start;
                        break;
                    }
                }
                off = start;
            }
            let _ = off;
            let want = canon(&rb[..cut_i]);
            let got = canon(&ra);
            if want != got {
                return Err(div("filter/results", "differs", format!("allowed {:?}: got {:?}, the all-allowed parser returns {:?} and the first disallowed version is at element {} (offset {})", s, ra.iter().map(kind).collect::<Vec<_>>(), rb.iter().map(kind).collect::<Vec<_>>(), cut_i, cut_off)));
            }
            w.rep.count(if cut_i == rb.len() { "cut.none" } else if cut_i == 0 { "cut.first" } else { "cut.middle" }, 1);
            // caches: identical to an all-allowing parser fed the prefix
            sut.parse(2, &buf[..cut_off]);
            let sa = snap(&sut.parsers[0]);
            let sc = snap(&sut.parsers[2]);
            if sa != sc {
                return Err(div("filter/caches", "differs", format!("allowed {:?}: caches differ from a parser fed only the {} allowed bytes: {}", s, cut_off, snap_diff(&sa, &sc))));
            }
            if cut_i < rb.len() {
                let filtered_has_template = buf[cut_off..].len() > 20;
                if filtered_has_template {
                    w.rep.count("filtered_tail_cache_checked", 1);
                }
            }
            // allowed but unknown version: final UnknownVersion error carrying the bytes after the version field
            if let Some(NetflowPacket::Error(e)) = ra.last() {
                let start = buf.len() - e.remaining.len();
                if e.remaining.len() >= 2 {
                    let v = u16::from_be_bytes([e.remaining[0], e.remaining[1]]);
                    if s.contains(&v) && ![5u16, 7, 9, 10].contains(&v) {
                        w.rep.count("unknown_version_cases", 1);
                        match &e.error {
                            netflow_parser::NetflowParseError::UnknownVersion(b) if b[..] == buf[start + 2..] => {}
                            other => return Err(div("filter/unknown-version", "error-kind", format!("allowed unknown version {} reported as {}", v, &format!("{:?}", other)[..40]))),
                        }
                    }
                }
            }
            Ok(())
        })();
        match verdict {
            Ok(()) => {
                w.rep.shape(&format!("{:?}|{:?}|{:?}", s, ra.iter().map(kind).collect::<Vec<_>>(), rb.iter().map(kind).collect::<Vec<_>>()));
                if w.rep.samples.len() < 2 && !ra.is_empty() && ra.len() < rb.len() {
                    w.rep.sample(json!({"allowed": s, "returned": ra.len(), "all_allowed_returns": rb.len(), "replay": sut.replay_json()}));
                }
            }
            Err(d) => w.rep.violation(sig("C12", &d), &d, sut.replay_json()),
        }
    }
    w.rep.extra.insert("exhaustive_subspaces".into(), json!({"allowed_sets": "all 16 subsets of {5,7,9,10} in rotation, each also with extra numbers"}));
}

// ------------------------------------------------------------------------------------ C14

fn structural_cuts(p: &Pkt, wire: &[u8]) -> Vec<usize> {
    // boundaries +-1 for larger packets
    let mut c = vec![1usize, 2, 3, 4, wire.len() - 1, wire.len() - 2];
    let hdr = match p {
        Pkt::Fixed(_) => 24,
        Pkt::V9(_) => 20,
        Pkt::Ipfix(_) => 16,
    };
    c.extend_from_slice(&[hdr - 1, hdr, hdr + 1, hdr + 3, hdr + 4, hdr + 5]);
    let mut off = hdr;
    match p {
        Pkt::V9(v) => {
            for f in &v.flowsets {
                off += f.body().len() + 4;
                c.extend_from_slice(&[off - 1, off, off + 1, off + 4, off + 5]);
            }
        }
        Pkt::Ipfix(m) => {
            for f in &m.sets {
                off += f.body().len() + 4;
                c.extend_from_slice(&[off - 1, off, off + 1, off + 4, off + 5]);
            }
        }
        Pkt::Fixed(f) => {
            for _ in &f.records {
                off += f.rec_len();
                c.extend_from_slice(&[off - 1, off, off + 1]);
            }
        }
    }
    c.retain(|x| *x > 0 && *x < wire.len());
    c.sort();
    c.dedup();
    c
}

fn v9_boundaries(v: &V9Pkt) -> Vec<usize> {
    let mut b = vec![20usize];
    let mut off = 20;
    for f in &v.flowsets {
        off += f.body().len() + 4;
        b.push(off);
    }
    b
}

/// Maximal-size victims (one-off items): IPFIX messages whose length field is 65535, 65534 and
/// 65532, a V9 packet filling the datagram and V5/V7 packets with the maximal datagram count, each
/// decoded from a warm cache; structural and sampled cut points.
fn c14_extreme_victims(w: &mut W) {
    let mut victims: Vec<(String, Vec<Vec<u8>>, Vec<u8>, u16)> = vec![];
    for total in [65535usize, 65534, 65532, 65531, 40000] {
        // template (one 1-byte field), then a message of exactly `total` bytes: one data set
        let t = IpfixMsg { export_time: 1, seq: 1, domain: 1, sets: vec![IpfixSet::Template { records: vec![IpfixTmpl { id: 256, fields: vec![IpfixSpec { type_num: 4, len: 1, enterprise: None }] }], padding: vec![] }] };
        let n = total - 16 - 4;
        let mut d = vec![];
        d.extend_from_slice(&10u16.to_be_bytes());
        d.extend_from_slice(&(total as u16).to_be_bytes());
        d.extend_from_slice(&[0, 0, 0, 1, 0, 0, 0, 2, 0, 0, 0, 3]);
        d.extend_from_slice(&256u16.to_be_bytes());
        d.extend_from_slice(&((n + 4) as u16).to_be_bytes());
        d.extend((0..n).map(|i| (i % 251) as u8));
        victims.push((format!("ipfix-length-{}", total), vec![t.wire()], d, 10));
        // the same size with a template set in front of the data (so that a cut after it matters)
        let mut m = vec![];
        m.extend_from_slice(&10u16.to_be_bytes());
        m.extend_from_slice(&(total as u16).to_be_bytes());
        m.extend_from_slice(&[0, 0, 0, 1, 0, 0, 0, 2, 0, 0, 0, 3]);
        m.extend_from_slice(&[0, 2, 0, 12, 1, 1, 0, 1, 0, 4, 0, 1]);
        let n = total - 16 - 12 - 4;
        m.extend_from_slice(&257u16.to_be_bytes());
        m.extend_from_slice(&((n + 4) as u16).to_be_bytes());
        m.extend((0..n).map(|i| (i % 251) as u8));
        victims.push((format!("ipfix-length-{}-with-template", total), vec![], m, 10));
    }
    for (ver, cnt) in [(5u16, 1364usize), (7, 1259), (5, 1365), (7, 1260)] {
        let mut rng = Rng::derive(w.seed, 77, cnt as u64);
        victims.push((format!("v{}-count-{}", ver, cnt), vec![], Pkt::Fixed(fixed_pkt(&mut rng, ver, cnt)).wire(), ver));
    }
    for (j, (name, warm, victim, ver)) in victims.into_iter().enumerate() {
        if !w.oneoff(j as u64) {
            continue;
        }
        let mut rng = w.begin_case(crate::worker::ONEOFF + j as u64, "extreme-victim");
        let mut base = Sut::new(1);
        for x in &warm {
            base.parse(0, x);
        }
        let ref_snap = snap(&base.parsers[0]);
        let l = victim.len();
        let mut cuts: Vec<usize> = vec![1, 2, 3, 4, 15, 16, 17, 19, 20, 21, 23, 24, 25, 27, 28, 29, 31, 32, 33, 36, 40, l - 1, l - 2, l - 3, l - 4, l - 5, l / 2, 65534, 65533, 65532, 65531];
        for _ in 0..(if w.thorough { 400 } else { 60 }) {
            cuts.push(1 + rng.usize(l - 1));
        }
        cuts.retain(|c| *c > 0 && *c < l);
        cuts.sort();
        cuts.dedup();
        w.rep.count("extreme_victims", 1);
        w.rep.count("packets", 1);
        let mut ok = true;
        for cut in cuts {
            let mut p = clone_parser(&base.parsers[0]);
            let res = p.parse_bytes(&victim[..cut]);
            w.rep.count("cut_points", 1);
            let d = match res.as_slice() {
                [NetflowPacket::Error(e)] if e.remaining == victim[..cut] => {
                    if ver != 9 && snap(&p) != ref_snap {
                        Some(div(&format!("trunc/v{}/caches", ver), "changed", format!("{}: cut {} of {}: caches changed by a truncated packet: {}", name, cut, l, snap_diff(&snap(&p), &ref_snap))))
                    } else {
                        None
                    }
                }
                [NetflowPacket::Error(e)] => Some(div(&format!("trunc/v{}", ver), "error-remaining", format!("{}: cut {}: error.remaining has {} bytes, the truncated packet has {}", name, cut, e.remaining.len(), cut))),
                [other] => Some(div(&format!("trunc/v{}", ver), "accepted", format!("{}: cut {} of {}: truncated packet reported as {}", name, cut, l, kind(other)))),
                r => Some(div(&format!("trunc/v{}", ver), "element-count", format!("{}: cut {} of {}: {} elements {:?}, want one error", name, cut, l, r.len(), r.iter().map(kind).collect::<Vec<_>>()))),
            };
            if let Some(d) = d {
                let mut s = Sut::new(1);
                for x in &warm {
                    s.parse(0, x);
                }
                s.parse(0, &victim[..cut]);
                w.rep.violation(sig("C14", &d), &d, s.replay_json());
                ok = false;
                break;
            }
        }
        if ok {
            w.rep.shape(&format!("extreme-victim {}", name));
        }
    }
}

/// Victims the library itself accepts: a hostile or mutated single packet (templates of any
/// width, odd paddings, counts that disagree) that decodes to exactly one packet spanning the whole
/// buffer on a parser warmed with hostile templates. Its own header then announces that length:
/// every proper prefix (V9: not on a flowset boundary) must be an error carrying the prefix.
fn c14_hostile_victim(w: &mut W, rng: &mut Rng) {
    let mut hs = crate::gen_host::Hostile::new();
    let mut base = Sut::new(1);
    for _ in 0..(1 + rng.usize(3)) {
        let b = hs.packet(rng, &w.pools);
        if std::panic::catch_unwind(std::panic::AssertUnwindSafe(|| base.parse(0, &b))).is_err() {
            crate::util::take_panic();
            w.rep.panics_foreign += 1;
            return;
        }
    }
    let ref_snap = snap(&base.parsers[0]);
    for _ in 0..4 {
        let vw = hs.packet(rng, &w.pools);
        if vw.len() < 4 || vw.len() > 4096 {
            continue;
        }
        let mut p0 = clone_parser(&base.parsers[0]);
        let full = match std::panic::catch_unwind(std::panic::AssertUnwindSafe(|| p0.parse_bytes(&vw))) {
            Ok(r) => r,
            Err(_) => {
                crate::util::take_panic();
                w.rep.panics_foreign += 1;
                return;
            }
        };
        w.rep.count("hostile_victim_candidates", 1);
        let allowed = p0.allowed_versions.clone();
        let spans_all = full.len() == 1 && !full[0].is_error() && matches!(account(&vw, &full, &allowed), Ok(a) if a.spans.len() == 1 && a.spans[0] == (0, vw.len()));
        if !spans_all {
            continue;
        }
        let ver = match &full[0] {
            NetflowPacket::V5(_) => 5,
            NetflowPacket::V7(_) => 7,
            NetflowPacket::V9(_) => 9,
            _ => 10,
        };
        let mut excluded: Vec<usize> = vec![];
        if let NetflowPacket::V9(v) = &full[0] {
            if v.flowsets.iter().any(|f| f.header.length < 4) {
                continue;
            }
            let mut off = 20usize;
            excluded.push(off);
            for f in &v.flowsets {
                off += f.header.length as usize;
                excluded.push(off);
            }
        }
        w.rep.count("hostile_victims", 1);
        w.rep.count(&format!("hostile_victim.v{}", ver), 1);
        w.rep.count("packets", 1);
        let cuts: Vec<usize> = if vw.len() <= 300 {
            (1..vw.len()).collect()
        } else {
            let mut c: Vec<usize> = (0..60).map(|_| 1 + rng.usize(vw.len() - 1)).collect();
            c.extend_from_slice(&[1, 2, 3, 4, vw.len() - 1, vw.len() - 2, vw.len() - 3]);
            c.sort();
            c.dedup();
            c
        };
        for cut in cuts {
            if excluded.contains(&cut) {
                continue;
            }
            let mut p = clone_parser(&base.parsers[0]);
            let res = match std::panic::catch_unwind(std::panic::AssertUnwindSafe(|| p.parse_bytes(&vw[..cut]))) {
                Ok(r) => r,
                Err(_) => {
                    crate::util::take_panic();
                    w.rep.panics_foreign += 1;
                    return;
                }
            };
            w.rep.count("cut_points", 1);
            let d = match res.as_slice() {
                [NetflowPacket::Error(e)] if e.remaining == vw[..cut] => {
                    if ver != 9 && snap(&p) != ref_snap {
                        Some(div(&format!("trunc/v{}/caches", ver), "changed", format!("accepted hostile packet cut at {} of {}: caches changed: {}", cut, vw.len(), snap_diff(&snap(&p), &ref_snap))))
                    } else {
                        None
                    }
                }
                [NetflowPacket::Error(e)] => Some(div(&format!("trunc/v{}", ver), "error-remaining", format!("accepted hostile packet cut at {} of {}: error.remaining has {} bytes", cut, vw.len(), e.remaining.len()))),
                [other] => Some(div(&format!("trunc/v{}", ver), "accepted", format!("a packet the library accepts in full ({} bytes, announced by its own header) cut at {} is reported as {}", vw.len(), cut, kind(other)))),
                r => Some(div(&format!("trunc/v{}", ver), "element-count", format!("accepted hostile packet cut at {} of {}: {} elements {:?}, want one error", cut, vw.len(), r.len(), r.iter().map(kind).collect::<Vec<_>>()))),
            };
            if let Some(d) = d {
                let mut s = Sut::new(1);
                for (_, b) in &base.ops {
                    s.parse(0, b);
                }
                s.parse(0, &vw[..cut]);
                w.rep.violation(sig("C14", &d), &d, s.replay_json());
                return;
            }
        }
        w.rep.shape(&format!("hostile-victim v{} len{}", ver, vw.len() / 16));
    }
}

pub fn run_c14(w: &mut W) {
    c14_extreme_victims(w);
    for idx in w.indices() {
        let mut rng = w.begin_case(idx, "truncation");
        if idx % 4 == 1 {
            c14_hostile_victim(w, &mut rng);
            continue;
        }
        let mut cfg = seq_cfg(&mut rng);
        cfg.max_records = if rng.chance(1, 10) { 30 } else { 4 };
        let mut ex = Exporter::new();
        // templates first (own calls), so that the victim can be a data packet decoded from cache
        let warm: Vec<Vec<u8>> = (0..rng.usize(3)).map(|_| seq_packet(&mut rng, &mut ex, &cfg, &w.pools).wire()).collect();
        let before: Vec<Vec<u8>> = (0..rng.usize(4)).map(|_| seq_packet(&mut rng, &mut ex, &cfg, &w.pools).wire()).collect();
        // every 40th victim is a V5/V7 packet around and beyond the datagram limit (the parser
        // accepts any slice; counts up to 65535 are legal in the header)
        let big = idx % 40 == 7;
        let victim = if big {
            let ver = if rng.chance(1, 2) { 5 } else { 7 };
            let n = *rng.pick(&[1300usize, 1364, 1365, 1366, 1367, 1400, 1500, 2000, 2731]);
            Pkt::Fixed(fixed_pkt(&mut rng, ver, n))
        } else {
            seq_packet(&mut rng, &mut ex, &cfg, &w.pools)
        };
        let vw = victim.wire();
        // one victim in eight is preceded, in the same buffer, by a complete verbatim copy of itself
        // (a retransmission): the truncated copy is still a truncated packet
        let mut before = before;
        if !big && rng.chance(1, 8) {
            before.push(vw.clone());
            w.rep.count("victims_preceded_by_a_verbatim_copy", 1);
        }
        let prefix: Vec<u8> = before.concat();
        if (!big && prefix.len() + vw.len() > 65535) || vw.len() < 2 {
            continue;
        }
        if big {
            w.rep.count("oversize_fixed_victims", 1);
        }
        let cuts: Vec<usize> = if big {
            let l = vw.len();
            let mut c = vec![1usize, 2, 3, 23, 24, 25, l - 1, l - 2, l - 10, l - 47, l - 48, l - 49, l - 100, 65534, 65535, 65536];
            for _ in 0..12 {
                c.push(1 + rng.usize(l - 1));
            }
            c.retain(|x| *x > 0 && *x < l);
            c.sort();
            c.dedup();
            c
        } else if vw.len() <= 2048 && (w.thorough || vw.len() <= 400 || idx % 8 == 0) {
            w.rep.count("packets_with_every_cut_point", 1);
            (1..vw.len()).collect()
        } else {
            let mut c = structural_cuts(&victim, &vw);
            for _ in 0..24 {
                c.push(1 + rng.usize(vw.len() - 1));
            }
            c.sort();
            c.dedup();
            c
        };
        let excluded: Vec<usize> = match &victim {
            Pkt::V9(v) => v9_boundaries(v),
            _ => vec![],
        };
        // One case in six: the application has merged a kept copy of the cache maps back in after an
        // id changed kind, so that one id sits in the template map *and* the options-template map
        // of a protocol - a state traffic alone never produces, and one more state a truncated
        // packet has to leave as it found it.
        let both: Option<(Vec<u8>, Vec<u8>)> = if !big && rng.chance(1, 6) {
            Some(if rng.chance(1, 2) {
                let o = ex.ipfix_new_opt_template(&mut rng, &cfg, &w.pools);
                let m1 = ex.ipfix_wrap(&mut rng, vec![IpfixSet::OptionsTemplate { records: vec![o.clone()], padding: vec![] }]).wire();
                let mut t = ex.ipfix_new_template(&mut rng, &cfg, &w.pools);
                ex.ix_t.remove(&t.id);
                t.id = o.id;
                ex.ix_o.remove(&o.id);
                ex.ix_t.insert(t.id, t.clone());
                let m2 = ex.ipfix_wrap(&mut rng, vec![IpfixSet::Template { records: vec![t], padding: vec![] }]).wire();
                (m1, m2)
            } else {
                let o = ex.v9_new_opt_template(&mut rng, &cfg, &w.pools);
                let pad = vec![0u8; (4 - o.wire().len() % 4) % 4];
                let m1 = ex.v9_wrap(&mut rng, &cfg, vec![V9FlowSet::OptionsTemplate { templates: vec![o.clone()], padding: pad }]).wire();
                let mut t = ex.v9_new_template(&mut rng, &cfg, &w.pools);
                ex.v9_t.remove(&t.id);
                t.id = o.id;
                ex.v9_o.remove(&o.id);
                ex.v9_t.insert(t.id, t.clone());
                let m2 = ex.v9_wrap(&mut rng, &cfg, vec![V9FlowSet::Template { templates: vec![t], padding: vec![] }]).wire();
                (m1, m2)
            })
        } else {
            None
        };
        let prepare = |s: &mut Sut| {
            for x in &warm {
                s.parse(0, x);
            }
            if let Some((m1, m2)) = &both {
                s.parse(0, m1);
                s.snapshot(0);
                s.parse(0, m2);
                s.restore(0);
            }
        };
        // state before the truncated buffer
        let mut base = Sut::new(1);
        prepare(&mut base);
        if both.is_some() {
            let s0 = snap(&base.parsers[0]);
            if s0.v9_t.keys().any(|k| s0.v9_o.contains_key(k)) || s0.ix_t.keys().any(|k| s0.ix_o.contains_key(k)) {
                w.rep.count("parsers_holding_an_id_in_both_maps_of_a_protocol", 1);
            }
        }
        // reference: the complete preceding packets
        let mut refp = clone_parser(&base.parsers[0]);
        let ref_res = refp.parse_bytes(&prefix);
        let ref_canon = canon(&ref_res);
        let ref_snap = snap(&refp);
        w.rep.count("packets", 1);
        w.rep.count(&format!("victim.v{}", victim.version()), 1);
        let mut ok = true;
        for cut in cuts {
            if excluded.contains(&cut) {
                w.rep.count("cuts_excluded_v9_flowset_boundary", 1);
                continue;
            }
            let mut buf = prefix.clone();
            buf.extend_from_slice(&vw[..cut]);
            let mut p = clone_parser(&base.parsers[0]);
            let res = p.parse_bytes(&buf);
            w.rep.count("cut_points", 1);
            let pos = if cut < 20 { "header" } else if cut + 1 == vw.len() { "last-byte" } else { "body" };
            w.rep.count(&format!("cut_position.{}", pos), 1);
            let verdict: Result<(), Div> = (|| {
                let n = ref_res.len();
                if res.len() != n + 1 {
                    return Err(div(&format!("trunc/v{}", victim.version()), "element-count", format!("cut {} of {}: {} elements {:?}, want the {} preceding + one error", cut, vw.len(), res.len(), res.iter().map(kind).collect::<Vec<_>>(), n)));
                }
                match &res[n] {
                    NetflowPacket::Error(e) => {
                        if e.remaining != vw[..cut] {
                            return Err(div(&format!("trunc/v{}", victim.version()), "error-remaining", format!("cut {}: error.remaining has {} bytes, the truncated packet has {}", cut, e.remaining.len(), cut)));
                        }
                    }
                    other => return Err(div(&format!("trunc/v{}", victim.version()), "accepted", format!("cut {} of {}: truncated packet reported as {}", cut, vw.len(), kind(other)))),
                }
                if canon(&res[..n]) != ref_canon {
                    return Err(div("trunc/preceding", "differs", format!("cut {}: packets before the truncated one are reported differently", cut)));
                }
                if victim.version() != 9 && snap(&p) != ref_snap {
                    return Err(div(&format!("trunc/v{}/caches", victim.version()), "changed", format!("cut {}: caches changed by a truncated packet: {}", cut, snap_diff(&snap(&p), &ref_snap))));
                }
                Ok(())
            })();
            if let Err(d) = verdict {
                let mut s = Sut::new(1);
                prepare(&mut s);
                s.parse(0, &buf);
                w.rep.violation(sig("C14", &d), &d, s.replay_json());
                ok = false;
                break;
            }
        }
        if ok {
            w.rep.shape(&format!("{}|before={}|warm={}", pkt_shape(&victim), before.len(), warm.len()));
            if w.rep.samples.len() < 2 {
                let mut s = Sut::new(1);
                for x in &warm {
                    s.parse(0, x);
                }
                let mut buf = prefix.clone();
                buf.extend_from_slice(&vw[..vw.len() / 2]);
                s.parse(0, &buf);
                w.rep.sample(json!({"victim_version": victim.version(), "victim_len": vw.len(), "example_cut": vw.len() / 2, "replay": s.replay_json()}));
            }
        }
    }
}

// ------------------------------------------------------------------------------------ C06

fn model_v9_tmpl_eq(got: &netflow_parser::variable_versions::v9::Template, exp: &V9Tmpl) -> bool {
    got.template_id == exp.id && got.field_count as usize == exp.fields.len() && got.fields.len() == exp.fields.len() && got.fields.iter().zip(exp.fields.iter()).all(|(g, e)| g.field_type_number == e.0 && g.field_length == e.1)
}
fn model_v9_opt_eq(got: &netflow_parser::variable_versions::v9::OptionsTemplate, exp: &V9OptTmpl) -> bool {
    got.template_id == exp.id
        && got.scope_fields.len() == exp.scope.len()
        && got.option_fields.len() == exp.opts.len()
        && got.scope_fields.iter().zip(exp.scope.iter()).all(|(g, e)| g.field_type_number == e.0 && g.field_length == e.1)
        && got.option_fields.iter().zip(exp.opts.iter()).all(|(g, e)| g.field_type_number == e.0 && g.field_length == e.1)
}
fn model_ix_specs_eq(got: &[netflow_parser::variable_versions::ipfix::TemplateField], exp: &[IpfixSpec]) -> bool {
    got.len() == exp.len() && got.iter().zip(exp.iter()).all(|(g, e)| g.field_type_number == e.type_num && g.field_length == e.len && g.enterprise_number == e.enterprise)
}

/// M-cache: the library's four maps equal the model cache (latest definition per id per protocol)
pub fn cache_matches_model(p: &NetflowParser, ex: &Exporter) -> Result<(), Div> {
    let keys = |a: Vec<u16>, b: Vec<u16>, what: &str| -> Result<(), Div> {
        if a != b {
            if a.len() + b.len() > 64 {
                let sa: std::collections::BTreeSet<u16> = a.iter().cloned().collect();
                let sb: std::collections::BTreeSet<u16> = b.iter().cloned().collect();
                let missing: Vec<u16> = sb.difference(&sa).take(8).cloned().collect();
                let extra: Vec<u16> = sa.difference(&sb).take(8).cloned().collect();
                return Err(div(&format!("cache/{}", what), "keys", format!("library holds {} ids, the model (every complete template record received) holds {}; first ids missing from the library {:?}, first ids only in the library {:?}", a.len(), b.len(), missing, extra)));
            }
            return Err(div(&format!("cache/{}", what), "keys", format!("library holds ids {:?}, the model (every complete template record received) holds {:?}", a, b)));
        }
        Ok(())
    };
    let mut a: Vec<u16> = p.v9_parser.templates.keys().cloned().collect();
    a.sort();
    keys(a, ex.v9_t.keys().cloned().collect(), "v9.templates")?;
    let mut a: Vec<u16> = p.v9_parser.options_templates.keys().cloned().collect();
    a.sort();
    keys(a, ex.v9_o.keys().cloned().collect(), "v9.options_templates")?;
    keys(p.ipfix_parser.templates.keys().cloned().collect(), ex.ix_t.keys().cloned().collect(), "ipfix.templates")?;
    keys(p.ipfix_parser.options_templates.keys().cloned().collect(), ex.ix_o.keys().cloned().collect(), "ipfix.options_templates")?;
    for (k, e) in &ex.v9_t {
        if !model_v9_tmpl_eq(&p.v9_parser.templates[k], e) {
            return Err(div("cache/v9.templates", "entry", format!("id {}: cached {:?} but the latest definition received is {:?}", k, p.v9_parser.templates[k].fields.iter().map(|f| (f.field_type_number, f.field_length)).collect::<Vec<_>>(), e.fields)));
        }
    }
    for (k, e) in &ex.v9_o {
        if !model_v9_opt_eq(&p.v9_parser.options_templates[k], e) {
            return Err(div("cache/v9.options_templates", "entry", format!("id {}: cached definition is not the latest received", k)));
        }
    }
    for (k, e) in &ex.ix_t {
        let g = &p.ipfix_parser.templates[k];
        if g.template_id != e.id || g.field_count as usize != g.fields.len() || !model_ix_specs_eq(&g.fields, &e.fields) {
            return Err(div("cache/ipfix.templates", "entry", format!("id {}: cached definition ({} fields, field_count {}) is not the latest received ({} fields)", k, g.fields.len(), g.field_count, e.fields.len())));
        }
    }
    for (k, e) in &ex.ix_o {
        let g = &p.ipfix_parser.options_templates[k];
        if g.template_id != e.id || g.scope_field_count != e.scope_count || !model_ix_specs_eq(&g.fields, &e.fields) {
            return Err(div("cache/ipfix.options_templates", "entry", format!("id {}: cached definition is not the latest received", k)));
        }
    }
    Ok(())
}

pub fn run_c06(w: &mut W) {
    let mut st = Stats::default();
    super::idspace::run(w, "C06", 0, &[0, 1, 2, 3]);
    for idx in w.indices() {
        let mut rng = w.begin_case(idx, "cache-history");
        if idx % 50 == 49 {
            c06_finding_family(w, &mut rng);
            continue;
        }
        if idx % 5 == 3 {
            c06_hostile_family(w, &mut rng);
            continue;
        }
        let np = 1 + rng.usize(3);
        let mut cfg = seq_cfg(&mut rng);
        cfg.small_ids = true;
        let mut exs: Vec<Exporter> = (0..np).map(|_| Exporter::new()).collect();
        let mut sut = Sut::new(np);
        // parser np-1 may have a restricted allowed set
        let restricted: Option<Vec<u16>> = if np > 1 && rng.chance(1, 2) { Some(vec![*rng.pick(&[5u16, 9, 10])]) } else { None };
        if let Some(s) = &restricted {
            sut.parsers[np - 1].allowed_versions = s.iter().cloned().collect();
        }
        let nops = 3 + rng.usize(10);
        let mut shape = String::new();
        let mut ok = true;
        // conformant packets delivered to each parser, with what each call returned (for the
        // split-invariance epilogue)
        let mut delivered: Vec<Vec<(Vec<u8>, String)>> = vec![vec![]; np];
        // parsers that received a cache-changing packet which cannot be part of a chained buffer
        let mut no_epilogue: Vec<bool> = vec![false; np];
        for _ in 0..nops {
            let pi = rng.usize(np);
            let before: Vec<Snap> = sut.parsers.iter().map(snap).collect();
            let k = rng.below(20);
            let verdict: Result<(), Div>;
            w.rep.count("calls", 1);
            if pi == np - 1 && restricted.is_some() && rng.chance(1, 3) {
                // one buffer: a packet of the allowed version, then a template packet of a version
                // this parser does not allow. Only the first is reported and only it may change the
                // caches (the gate applies to every packet of a buffer, not to the buffer).
                let s = restricted.clone().unwrap()[0];
                let mut trial = exs[pi].clone();
                let nrec = 1 + rng.usize(3);
                let first = match s {
                    5 => Pkt::Fixed(fixed_pkt(&mut rng, 5, nrec)),
                    9 => Pkt::V9(trial.v9_packet(&mut rng, &cfg, &w.pools)),
                    _ => Pkt::Ipfix(trial.ipfix_msg(&mut rng, &cfg, &w.pools)),
                };
                let mut scratch = trial.clone();
                let second: Vec<u8> = if s == 9 || (s == 5 && rng.chance(1, 2)) {
                    let t = scratch.ipfix_new_template(&mut rng, &cfg, &w.pools);
                    scratch.ipfix_wrap(&mut rng, vec![IpfixSet::Template { records: vec![t], padding: vec![] }]).wire()
                } else {
                    let t = scratch.v9_new_template(&mut rng, &cfg, &w.pools);
                    scratch.v9_wrap(&mut rng, &cfg, vec![V9FlowSet::Template { templates: vec![t], padding: vec![] }]).wire()
                };
                let fw = first.wire();
                let mut buf = fw.clone();
                buf.extend_from_slice(&second);
                let res = sut.parse(pi, &buf);
                exs[pi] = trial;
                shape.push_str("C;");
                w.rep.count("noop.disallowed_version_chained_behind_allowed", 1);
                let c = canon(&res);
                delivered[pi].push((fw, c[1..c.len() - 1].to_string()));
                verdict = (|| {
                    match (&first, res.as_slice()) {
                        (Pkt::V9(a), [NetflowPacket::V9(g)]) => check_v9(a, g, &mut st)?,
                        (Pkt::Ipfix(a), [NetflowPacket::IPFix(g)]) => check_ipfix(a, g, &mut st)?,
                        (Pkt::Fixed(_), [NetflowPacket::V5(_)]) => {}
                        (_, r) => return Err(div("cache/disallowed-chained", "elements", format!("allowed packet followed by a packet of a disallowed version returned {:?}", r.iter().map(kind).collect::<Vec<_>>()))),
                    }
                    Ok(())
                })();
                // the model (exs[pi]) saw only the first packet: cache_matches_model below decides
            } else if k < 12 {
                // a conformant packet from this parser's exporter
                let disallowed = |p: &Pkt| pi == np - 1 && restricted.as_ref().map(|s| !s.contains(&p.version())).unwrap_or(false);
                let mut trial = exs[pi].clone();
                let pkt = seq_packet(&mut rng, &mut trial, &cfg, &w.pools);
                let wire = pkt.wire();
                let res = sut.parse(pi, &wire);
                if disallowed(&pkt) {
                    // packets of disallowed versions leave everything untouched
                    shape.push_str("X;");
                    w.rep.count("noop.disallowed_version", 1);
                    verdict = if !res.is_empty() {
                        Err(div("cache/disallowed", "reported", "packet of a disallowed version was reported".into()))
                    } else if snap(&sut.parsers[pi]) != before[pi] {
                        Err(div("cache/disallowed", "changed", format!("caches changed by a packet of a disallowed version: {}", snap_diff(&snap(&sut.parsers[pi]), &before[pi]))))
                    } else {
                        Ok(())
                    };
                } else {
                    exs[pi] = trial;
                    shape.push_str(&pkt_shape(&pkt));
                    shape.push(';');
                    let c = canon(&res);
                    delivered[pi].push((wire.clone(), c[1..c.len() - 1].to_string()));
                    verdict = (|| {
                        match (&pkt, res.as_slice()) {
                            (Pkt::V9(a), [NetflowPacket::V9(g)]) => check_v9(a, g, &mut st)?,
                            (Pkt::Ipfix(a), [NetflowPacket::IPFix(g)]) => check_ipfix(a, g, &mut st)?,
                            (Pkt::Fixed(_), [NetflowPacket::V5(_)]) | (Pkt::Fixed(_), [NetflowPacket::V7(_)]) => {
                                w.rep.count("noop.fixed_format", 1);
                                if snap(&sut.parsers[pi]) != before[pi] {
                                    return Err(div("cache/fixed-format", "changed", "caches changed by a V5/V7 packet".into()));
                                }
                            }
                            (_, r) => return Err(div("cache/decode", "elements", format!("conformant packet returned {:?}", r.iter().map(kind).collect::<Vec<_>>()))),
                        }
                        // data-only packets leave the caches untouched
                        let defines = match &pkt {
                            Pkt::V9(a) => a.flowsets.iter().any(|f| matches!(f, V9FlowSet::Template { .. } | V9FlowSet::OptionsTemplate { .. })),
                            Pkt::Ipfix(a) => a.sets.iter().any(|f| matches!(f, IpfixSet::Template { .. } | IpfixSet::OptionsTemplate { .. })),
                            _ => false,
                        };
                        if !defines && !matches!(pkt, Pkt::Fixed(_)) {
                            w.rep.count("noop.data_only", 1);
                            if snap(&sut.parsers[pi]) != before[pi] {
                                return Err(div("cache/data-only", "changed", format!("caches changed by a packet without template records: {}", snap_diff(&snap(&sut.parsers[pi]), &before[pi]))));
                            }
                        } else if defines {
                            w.rep.count("template_packets", 1);
                        }
                        Ok(())
                    })();
                }
            } else if k >= 14 && k < 17 {
                // an IPFIX (options) template record that is complete but not well formed: no field
                // with a non-zero length (the library's own validity rule). It must not touch the
                // caches - in particular not the definition it names.
                let existing: Vec<u16> = exs[pi].ix_t.keys().chain(exs[pi].ix_o.keys()).cloned().collect();
                // (with no fields at all such a record is what RFC 7011 8.1 calls a template
                // withdrawal - of one id, or with id 2 / 3 of all templates / options templates;
                // this library keeps what it has learned: C06 says templates are never evicted)
                let all_withdrawal = rng.chance(1, 6);
                let id = if all_withdrawal { *rng.pick(&[2u16, 3]) } else if !existing.is_empty() && rng.chance(3, 4) { *rng.pick(&existing) } else { 256 + rng.below(4) as u16 };
                let nf = if all_withdrawal { 0 } else { rng.usize(4) };
                let fields: Vec<IpfixSpec> = (0..nf).map(|_| IpfixSpec { type_num: *rng.pick(&w.pools.ipfix_known), len: 0, enterprise: None }).collect();
                let set = if rng.chance(1, 2) {
                    IpfixSet::Template { records: vec![IpfixTmpl { id, fields }], padding: vec![] }
                } else {
                    IpfixSet::OptionsTemplate { records: vec![IpfixOptTmpl { id, scope_count: nf.min(1) as u16, fields }], padding: vec![] }
                };
                let mut sets = vec![set];
                // sometimes a valid data set for a known template precedes it in the same message
                if rng.chance(1, 3) {
                    if let Some(t) = exs[pi].ix_t.values().next().cloned() {
                        sets.insert(0, exs[pi].ipfix_data(&mut rng, &cfg, t.id, false, &t.fields));
                    }
                }
                let msg = IpfixMsg { export_time: rng.b32(), seq: rng.b32(), domain: rng.b32(), sets };
                sut.parse(pi, &msg.wire());
                shape.push_str("V;");
                w.rep.count("noop.invalid_template_record", 1);
                verdict = if snap(&sut.parsers[pi]) != before[pi] {
                    Err(div("cache/invalid-template", "changed", format!("caches changed by a template record without any non-zero-length field (id {}): {}", id, snap_diff(&snap(&sut.parsers[pi]), &before[pi]))))
                } else {
                    Ok(())
                };
            } else if k < 14 {
                // garbage / hostile data that defines nothing: unknown version or random tail
                let mut b = vec![];
                b.extend_from_slice(&(*rng.pick(&[0u16, 1, 6, 8, 11, 255])).to_be_bytes());
                let n = rng.usize(40);
                b.extend(rng.bytes(n));
                sut.parse(pi, &b);
                shape.push_str("G;");
                w.rep.count("noop.garbage", 1);
                verdict = if snap(&sut.parsers[pi]) != before[pi] { Err(div("cache/garbage", "changed", "caches changed by input of an unknown version".into())) } else { Ok(()) };
            } else if rng.chance(1, 4) && !(pi == np - 1 && restricted.as_ref().map(|s| !s.contains(&9)).unwrap_or(false)) {
                // one V9 packet: template flowset(s) - often redefining cached ids -, then a data
                // flowset for an id the parser holds no template for. The packet is an error, but
                // the template records were received: they are the latest definitions from now on
                // (what an error path "restores" must not be an older definition).
                let mut trial = exs[pi].clone();
                let n = 1 + rng.usize(2);
                let mut fs: Vec<V9FlowSet> = vec![];
                if rng.chance(1, 2) {
                    let templates: Vec<V9Tmpl> = (0..n).map(|_| trial.v9_new_template(&mut rng, &cfg, &w.pools)).collect();
                    fs.push(V9FlowSet::Template { templates, padding: vec![] });
                } else {
                    let templates: Vec<V9OptTmpl> = (0..n).map(|_| trial.v9_new_opt_template(&mut rng, &cfg, &w.pools)).collect();
                    let len: usize = templates.iter().map(|t| t.wire().len()).sum();
                    fs.push(V9FlowSet::OptionsTemplate { templates, padding: vec![0u8; (4 - len % 4) % 4] });
                }
                let nb = 4 + rng.usize(12);
                fs.push(V9FlowSet::Orphan { id: 60000 + rng.below(5000) as u16, body: rng.bytes(nb) });
                let pkt = trial.v9_wrap(&mut rng, &cfg, fs);
                let res = sut.parse(pi, &pkt.wire());
                exs[pi] = trial;
                no_epilogue[pi] = true;
                shape.push_str("E;");
                w.rep.count("template_then_unknown_data_packets", 1);
                verdict = match res.as_slice() {
                    [NetflowPacket::Error(_)] => Ok(()),
                    r => Err(div("cache/template-then-unknown-data", "elements", format!("V9 packet with data for an unknown template returned {:?}", r.iter().map(kind).collect::<Vec<_>>()))),
                };
                // cache_matches_model below: the model holds the new definitions
            } else if rng.chance(1, 3) && !(pi == np - 1 && restricted.as_ref().map(|s| !s.contains(&9)).unwrap_or(false)) {
                // a V9 template / options-template flowset whose length is consistent and that holds
                // one or more complete records followed by a record that does not fit in what is left:
                // the complete records are cached, the tail is padding (records do not depend on their
                // siblings)
                let mut trial = exs[pi].clone();
                let fs = if rng.chance(1, 2) {
                    let n = 1 + rng.usize(2);
                    let templates: Vec<V9Tmpl> = (0..n).map(|_| trial.v9_new_template(&mut rng, &cfg, &w.pools)).collect();
                    // tail: a template record header announcing more fields than the bytes that follow
                    let have = rng.usize(3);
                    let mut tail = vec![];
                    tail.extend_from_slice(&(256 + rng.below(4) as u16).to_be_bytes());
                    tail.extend_from_slice(&((have + 1 + rng.usize(5)) as u16).to_be_bytes());
                    for _ in 0..have {
                        tail.extend_from_slice(&[0, 1, 0, 4]);
                    }
                    V9FlowSet::Template { templates, padding: tail }
                } else {
                    let n = 1 + rng.usize(2);
                    let templates: Vec<V9OptTmpl> = (0..n).map(|_| trial.v9_new_opt_template(&mut rng, &cfg, &w.pools)).collect();
                    // tail: an options template record header whose scope / option lengths exceed what follows
                    let have = rng.usize(3);
                    let mut tail = vec![];
                    tail.extend_from_slice(&(256 + rng.below(4) as u16).to_be_bytes());
                    tail.extend_from_slice(&4u16.to_be_bytes());
                    tail.extend_from_slice(&((4 * (have + 1 + rng.usize(4))) as u16).to_be_bytes());
                    for _ in 0..have {
                        tail.extend_from_slice(&[0, 1, 0, 4]);
                    }
                    V9FlowSet::OptionsTemplate { templates, padding: tail }
                };
                let pkt = trial.v9_wrap(&mut rng, &cfg, vec![fs]);
                let wire = pkt.wire();
                let res = sut.parse(pi, &wire);
                exs[pi] = trial;
                shape.push_str("S;");
                w.rep.count("template_flowsets_with_an_unfitting_last_record", 1);
                let c = canon(&res);
                delivered[pi].push((wire.clone(), c[1..c.len() - 1].to_string()));
                verdict = match res.as_slice() {
                    [NetflowPacket::V9(g)] => check_v9(&pkt, g, &mut st),
                    r => Err(div("cache/sibling-record", "elements", format!("template flowset with complete records and an unfitting last record returned {:?}", r.iter().map(kind).collect::<Vec<_>>()))),
                };
            } else {
                // a template packet that ends before its only template record is complete
                let mut trial = exs[pi].clone();
                let wire = if rng.chance(1, 2) {
                    let t = trial.v9_new_template(&mut rng, &cfg, &w.pools);
                    trial.v9_wrap(&mut rng, &cfg, vec![V9FlowSet::Template { templates: vec![t], padding: vec![] }]).wire()
                } else {
                    let t = trial.ipfix_new_template(&mut rng, &cfg, &w.pools);
                    trial.ipfix_wrap(&mut rng, vec![IpfixSet::Template { records: vec![t], padding: vec![] }]).wire()
                };
                let hdr = if wire[1] == 9 { 20 } else { 16 };
                let cut = hdr + 1 + rng.usize(wire.len() - hdr - 1);
                let res = sut.parse(pi, &wire[..cut]);
                shape.push_str("I;");
                w.rep.count("noop.incomplete_template_record", 1);
                let allowed_here = !(pi == np - 1 && restricted.as_ref().map(|s| !s.contains(&(wire[1] as u16))).unwrap_or(false));
                verdict = if snap(&sut.parsers[pi]) != before[pi] {
                    Err(div("cache/incomplete-template", "changed", format!("caches changed by a packet that ends inside its template record (cut {} of {}): {}", cut, wire.len(), snap_diff(&snap(&sut.parsers[pi]), &before[pi]))))
                } else if allowed_here && !(res.len() == 1 && res[0].is_error()) {
                    Err(div("cache/incomplete-template", "accepted", format!("truncated template packet returned {:?}", res.iter().map(kind).collect::<Vec<_>>())))
                } else {
                    Ok(())
                };
            }
            // other parsers never change; this parser's caches equal its model
            let verdict = verdict.and_then(|_| {
                for (j, b) in before.iter().enumerate() {
                    if j != pi && snap(&sut.parsers[j]) != *b {
                        return Err(div("cache/isolation", "changed", format!("a call on parser {} changed the caches of parser {}", pi, j)));
                    }
                }
                cache_matches_model(&sut.parsers[pi], &exs[pi])
            });
            // monotone: keys never disappear, except an id re-announced as the other kind moves maps
            let verdict = verdict.and_then(|_| {
                let after = snap(&sut.parsers[pi]);
                let b = &before[pi];
                for k in b.v9_t.keys().chain(b.v9_o.keys()) {
                    if !after.v9_t.contains_key(k) && !after.v9_o.contains_key(k) {
                        return Err(div("cache/eviction", "v9", format!("V9 template id {} disappeared", k)));
                    }
                }
                for k in b.ix_t.keys().chain(b.ix_o.keys()) {
                    if !after.ix_t.contains_key(k) && !after.ix_o.contains_key(k) {
                        return Err(div("cache/eviction", "ipfix", format!("IPFIX template id {} disappeared", k)));
                    }
                }
                Ok(())
            });
            if let Err(d) = verdict {
                w.rep.violation(sig("C06", &d), &d, sut.replay_json());
                ok = false;
                break;
            }
        }
        // split-invariance epilogue: the conformant packets a parser received, delivered to a fresh
        // parser in ONE buffer, must give the same results and the same final caches (the no-op
        // inputs in between changed nothing, so they can be left out)
        if ok {
            for pi in 0..np {
                if (pi == np - 1 && restricted.is_some()) || no_epilogue[pi] {
                    continue;
                }
                let total: usize = delivered[pi].iter().map(|d| d.0.len()).sum();
                if delivered[pi].len() < 2 || total > 65535 {
                    continue;
                }
                let buf: Vec<u8> = delivered[pi].iter().flat_map(|d| d.0.iter().cloned()).collect();
                let mut fresh = NetflowParser::default();
                let r = fresh.parse_bytes(&buf);
                let want = format!("[{}]", delivered[pi].iter().map(|d| d.1.as_str()).filter(|x| !x.is_empty()).collect::<Vec<_>>().join(", "));
                w.rep.count("split_epilogues", 1);
                let d = if canon(&r) != want {
                    Some(div("cache/split", "results", format!("{} packets delivered in one buffer decode differently than one per call", delivered[pi].len())))
                } else if snap(&fresh) != snap(&sut.parsers[pi]) {
                    Some(div("cache/split", "caches", format!("{} packets delivered in one buffer leave different caches: {}", delivered[pi].len(), snap_diff(&snap(&fresh), &snap(&sut.parsers[pi])))))
                } else {
                    None
                };
                if let Some(d) = d {
                    let mut s2 = Sut::new(1);
                    s2.parse(0, &buf);
                    w.rep.violation(sig("C06", &d), &d, s2.replay_json());
                    ok = false;
                    break;
                }
            }
        }
        if ok {
            w.rep.shape(&shape);
            let s = snap(&sut.parsers[0]);
            w.rep.count("cache_entries_at_end", s.total() as u64);
            let same_id = s.v9_t.keys().chain(s.v9_o.keys()).filter(|k| s.ix_t.contains_key(k) || s.ix_o.contains_key(k)).count();
            w.rep.count("ids_defined_in_both_protocols", same_id as u64);
            if w.rep.samples.len() < 2 {
                w.rep.sample(json!({"parsers": np, "calls": nops, "replay": sut.replay_json()}));
            }
        }
        for (k, c) in std::mem::take(&mut st.findings) {
            // options-data multi-record etc. are C04/C05's listed findings; not judged here
            w.rep.count(&format!("foreign_finding.{}", k), c);
        }
    }
    w.rep.count("cells", st.cells_total);
    w.rep.count("records", st.records);
}

/// A packet that contains only data sets (every set id >= 256) for ids the parser may hold, with
/// arbitrary bodies: whatever the library makes of it, it defines nothing.
fn data_only_packet(rng: &mut Rng, v9: bool, ids: &[u16]) -> Vec<u8> {
    // hostile template records may carry ids below 256; as a *set* id those mean template sets
    let ids: Vec<u16> = ids.iter().cloned().filter(|x| *x >= 256).collect();
    let ids = &ids[..];
    let nsets = 1 + rng.usize(3);
    let mut body = vec![];
    for _ in 0..nsets {
        // one set in six uses an unused / reserved set id (IPFIX: 0, 1, 4-255; V9: 2-255): neither a
        // template set nor a data set, so it defines nothing either - whatever its body looks like
        let id = if rng.chance(1, 6) {
            if v9 {
                *rng.pick(&[2u16, 3, 4, 10, 128, 254, 255])
            } else {
                *rng.pick(&[0u16, 1, 4, 5, 9, 118, 200, 254, 255])
            }
        } else if !ids.is_empty() && rng.chance(4, 5) {
            *rng.pick(ids)
        } else {
            256 + rng.below(6) as u16
        };
        let n = match rng.below(6) {
            0 => 0,
            1 => 1 + rng.usize(3),
            2 => 64 + rng.usize(200),
            _ => rng.usize(48),
        };
        let payload = match rng.below(5) {
            0 => vec![0u8; n],
            1 => vec![0xffu8; n],
            2 => {
                // shaped like a template record (id, field count, specifiers)
                let mut p = vec![];
                let tid = 300 + rng.below(60000) as u16;
                let nf = 1 + rng.usize(3);
                p.extend_from_slice(&tid.to_be_bytes());
                p.extend_from_slice(&(nf as u16).to_be_bytes());
                for _ in 0..nf {
                    p.extend_from_slice(&(1 + rng.below(30) as u16).to_be_bytes());
                    p.extend_from_slice(&(1 + rng.below(8) as u16).to_be_bytes());
                }
                p
            }
            _ => rng.bytes(n),
        };
        let n = payload.len();
        body.extend_from_slice(&id.to_be_bytes());
        body.extend_from_slice(&((4 + n) as u16).to_be_bytes());
        body.extend(payload);
    }
    let mut o = vec![];
    if v9 {
        o.extend_from_slice(&9u16.to_be_bytes());
        o.extend_from_slice(&(nsets as u16).to_be_bytes());
        o.extend(rng.bytes(16));
    } else {
        o.extend_from_slice(&10u16.to_be_bytes());
        o.extend_from_slice(&((16 + body.len()) as u16).to_be_bytes());
        o.extend(rng.bytes(12));
    }
    o.extend(body);
    o
}

/// Whatever a parser has been fed before, a conformant packet that defines a template and carries
/// data for it, and a following data-only packet, decode exactly as sent and leave the definition
/// in the cache ("latest definition wins" regardless of history).
fn conformant_probe(rng: &mut Rng, sut: &mut Sut, pi: usize, st: &mut Stats) -> Result<(), Div> {
    let id = rng.range(256, 65535) as u16;
    let w2 = 1 + rng.below(4) as u16;
    let prefix = |mut d: Div, what: &str| {
        d.unit = format!("probe/{}/{}", what, d.unit);
        d
    };
    if rng.chance(1, 2) {
        let t = V9Tmpl { id, fields: vec![(1, 4), (2, w2), (8, 4)] };
        let mk = |rng: &mut Rng, n: usize| V9FlowSet::Data { tmpl: t.clone(), records: (0..n).map(|_| vec![rng.bbytes(4), rng.bbytes(w2 as usize), rng.bbytes(4)]).collect(), padding: vec![] };
        let d1 = mk(rng, 2);
        let p1 = V9Pkt { count: 2, sys_up_time: 1, unix_secs: 2, seq: 3, source_id: 4, flowsets: vec![V9FlowSet::Template { templates: vec![t.clone()], padding: vec![] }, d1] };
        let n2 = 1 + rng.usize(3);
        let d2 = mk(rng, n2);
        let p2 = V9Pkt { count: 1, sys_up_time: 1, unix_secs: 2, seq: 4, source_id: 4, flowsets: vec![d2] };
        for p in [&p1, &p2] {
            let res = sut.parse(pi, &p.wire());
            match res.as_slice() {
                [NetflowPacket::V9(g)] => check_v9(p, g, st).map_err(|d| prefix(d, "v9"))?,
                r => return Err(div("probe/v9", "elements", format!("conformant V9 packet (template {} + data, then data) returned {:?} on a parser with a hostile history", id, r.iter().map(kind).collect::<Vec<_>>()))),
            }
        }
        match sut.parsers[pi].v9_parser.templates.get(&id) {
            Some(g) if model_v9_tmpl_eq(g, &t) => Ok(()),
            _ => Err(div("probe/v9/cache", "entry", format!("template {} just received is not what the cache holds", id))),
        }
    } else {
        let fields = vec![IpfixSpec { type_num: 1, len: 4, enterprise: None }, IpfixSpec { type_num: 2, len: w2, enterprise: None }, IpfixSpec { type_num: 8, len: 4, enterprise: None }];
        let t = IpfixTmpl { id, fields: fields.clone() };
        let mk = |rng: &mut Rng, n: usize| IpfixSet::Data { id, options: false, fields: fields.clone(), records: (0..n).map(|_| vec![Cell::fixed(rng.bbytes(4)), Cell::fixed(rng.bbytes(w2 as usize)), Cell::fixed(rng.bbytes(4))]).collect(), padding: vec![] };
        let d1 = mk(rng, 2);
        let p1 = IpfixMsg { export_time: 1, seq: 2, domain: 3, sets: vec![IpfixSet::Template { records: vec![t.clone()], padding: vec![] }, d1] };
        let n2 = 1 + rng.usize(3);
        let d2 = mk(rng, n2);
        let p2 = IpfixMsg { export_time: 1, seq: 3, domain: 3, sets: vec![d2] };
        for p in [&p1, &p2] {
            let res = sut.parse(pi, &p.wire());
            match res.as_slice() {
                [NetflowPacket::IPFix(g)] => check_ipfix(p, g, st).map_err(|d| prefix(d, "ipfix"))?,
                r => return Err(div("probe/ipfix", "elements", format!("conformant IPFIX message (template {} + data, then data) returned {:?} on a parser with a hostile history", id, r.iter().map(kind).collect::<Vec<_>>()))),
            }
        }
        match sut.parsers[pi].ipfix_parser.templates.get(&id) {
            Some(g) if g.template_id == id && model_ix_specs_eq(&g.fields, &fields) => Ok(()),
            _ => Err(div("probe/ipfix/cache", "entry", format!("template {} just received is not what the cache holds", id))),
        }
    }
}

/// Any complete, well-formed template record is cached exactly as sent, whatever its field types
/// and widths (element numbers from the whole known and unknown tables, widths 0..20, 255, 1000 and,
/// for IPFIX, variable length) and whatever the parser has seen before. No data is sent, so nothing
/// depends on whether such a template could be decoded.
fn template_probe(rng: &mut Rng, sut: &mut Sut, pi: usize, pools: &Pools) -> Result<(), Div> {
    let id = rng.range(256, 65535) as u16;
    let width = |rng: &mut Rng| -> u16 {
        match rng.below(10) {
            0 => 0,
            1 => 255,
            2 => 1000,
            3 => 6,
            _ => rng.range(1, 20) as u16,
        }
    };
    let nf = 1 + rng.usize(6);
    match rng.below(4) {
        0 => {
            let fields: Vec<(u16, u16)> = (0..nf).map(|_| (if rng.chance(1, 5) { *rng.pick(&pools.v9_unknown) } else { *rng.pick(&pools.v9_known) }, width(rng))).collect();
            let t = V9Tmpl { id, fields };
            let p = V9Pkt { count: 1, sys_up_time: 1, unix_secs: 2, seq: 3, source_id: 4, flowsets: vec![V9FlowSet::Template { templates: vec![t.clone()], padding: vec![] }] };
            let res = sut.parse(pi, &p.wire());
            if !(res.len() == 1 && !res[0].is_error()) {
                return Err(div("probe/v9-template", "elements", format!("well-formed template packet (template {} with fields {:?}) returned {:?}", id, t.fields, res.iter().map(kind).collect::<Vec<_>>())));
            }
            match sut.parsers[pi].v9_parser.templates.get(&id) {
                Some(g) if model_v9_tmpl_eq(g, &t) => Ok(()),
                g => Err(div("probe/v9-template/cache", "entry", format!("template {} sent with fields {:?}; the cache holds {:?}", id, t.fields, g.map(|g| g.fields.iter().map(|f| (f.field_type_number, f.field_length)).collect::<Vec<_>>())))),
            }
        }
        1 => {
            let ns = 1 + rng.usize(2);
            let scope: Vec<(u16, u16)> = (0..ns).map(|_| (1 + rng.below(5) as u16, width(rng))).collect();
            let opts: Vec<(u16, u16)> = (0..nf).map(|_| (if rng.chance(1, 5) { *rng.pick(&pools.v9_unknown) } else { *rng.pick(&pools.v9_known) }, width(rng))).collect();
            let t = V9OptTmpl { id, scope, opts };
            let len = t.wire().len();
            let p = V9Pkt { count: 1, sys_up_time: 1, unix_secs: 2, seq: 3, source_id: 4, flowsets: vec![V9FlowSet::OptionsTemplate { templates: vec![t.clone()], padding: vec![0u8; (4 - len % 4) % 4] }] };
            let res = sut.parse(pi, &p.wire());
            if !(res.len() == 1 && !res[0].is_error()) {
                return Err(div("probe/v9-options-template", "elements", format!("well-formed options template packet (id {}) returned {:?}", id, res.iter().map(kind).collect::<Vec<_>>())));
            }
            match sut.parsers[pi].v9_parser.options_templates.get(&id) {
                Some(g) if model_v9_opt_eq(g, &t) => Ok(()),
                _ => Err(div("probe/v9-options-template/cache", "entry", format!("options template {} (scope {:?}, options {:?}) is not what the cache holds", id, t.scope, t.opts))),
            }
        }
        k => {
            let mut fields: Vec<IpfixSpec> = (0..nf)
                .map(|_| {
                    let ent = rng.chance(1, 6);
                    IpfixSpec { type_num: if ent { rng.u16() & 0x7fff } else if rng.chance(1, 5) { *rng.pick(&pools.ipfix_unknown) } else { *rng.pick(&pools.ipfix_known) }, len: if rng.chance(1, 8) { 65535 } else { width(rng) }, enterprise: if ent { Some(rng.b32()) } else { None } }
                })
                .collect();
            if fields.iter().all(|f| f.len == 0) {
                fields[0].len = 4;
            }
            let options = k == 3;
            let scope_count = 1 + rng.usize(fields.len()) as u16;
            let set = if options {
                let t = IpfixOptTmpl { id, scope_count, fields: fields.clone() };
                let len = t.wire().len();
                IpfixSet::OptionsTemplate { records: vec![t], padding: vec![0u8; (4 - (len + 4) % 4) % 4] }
            } else {
                IpfixSet::Template { records: vec![IpfixTmpl { id, fields: fields.clone() }], padding: vec![] }
            };
            let m = IpfixMsg { export_time: 1, seq: 2, domain: 3, sets: vec![set] };
            let res = sut.parse(pi, &m.wire());
            let listed = match res.as_slice() {
                [NetflowPacket::IPFix(g)] => g.flowsets.len() == 1,
                _ => false,
            };
            if !listed {
                return Err(div("probe/ipfix-template", "elements", format!("well-formed {}template message (id {}, {} fields) returned {:?} / did not list the set", if options { "options " } else { "" }, id, fields.len(), res.iter().map(kind).collect::<Vec<_>>())));
            }
            let c = &sut.parsers[pi].ipfix_parser;
            let ok = if options { c.options_templates.get(&id).map(|g| g.template_id == id && g.scope_field_count == scope_count && model_ix_specs_eq(&g.fields, &fields)).unwrap_or(false) } else { c.templates.get(&id).map(|g| g.template_id == id && model_ix_specs_eq(&g.fields, &fields)).unwrap_or(false) };
            if ok {
                Ok(())
            } else {
                Err(div("probe/ipfix-template/cache", "entry", format!("{}template {} sent with {:?} is not what the cache holds", if options { "options " } else { "" }, id, fields.iter().map(|f| (f.type_num, f.len, f.enterprise)).collect::<Vec<_>>())))
            }
        }
    }
}

/// Hostile cache histories: templates of any shape (zero-length fields, unsupported widths,
/// counts that disagree with the bytes), data that cannot be decoded, mutated packets. No model of
/// what should be cached is attached; the universal clauses are decided: an id, once cached for a
/// protocol, never disappears; a call never touches another parser; packets without any template
/// set leave all four maps identical.
fn c06_hostile_family(w: &mut W, rng: &mut Rng) {
    let np = 1 + rng.usize(2);
    let mut sut = Sut::new(np);
    let mut hs: Vec<crate::gen_host::Hostile> = (0..np).map(|_| crate::gen_host::Hostile::new()).collect();
    let mut ex = Exporter::new();
    let cfg = Cfg::default();
    let nops = 4 + rng.usize(10);
    let mut shape = String::from("hostile:");
    let mut prev: Vec<u8> = vec![];
    for _ in 0..nops {
        let pi = rng.usize(np);
        let before: Vec<Snap> = sut.parsers.iter().map(snap).collect();
        let k = rng.below(10);
        let mut data_only = false;
        let buf: Vec<u8> = if k < 4 {
            shape.push('H');
            hs[pi].buffer(rng, &w.pools)
        } else if k < 8 {
            shape.push('D');
            data_only = true;
            let v9 = rng.chance(1, 2);
            let ids: Vec<u16> = if v9 { before[pi].v9_t.keys().chain(before[pi].v9_o.keys()).cloned().collect() } else { before[pi].ix_t.keys().chain(before[pi].ix_o.keys()).cloned().collect() };
            data_only_packet(rng, v9, &ids)
        } else {
            shape.push('M');
            let b = crate::gen_host::conformant_packet(rng, &mut ex, &cfg, &w.pools);
            let m = if rng.chance(1, 2) { crate::gen_host::mutate(rng, &b, &prev) } else { b.clone() };
            prev = b;
            m
        };
        let r = std::panic::catch_unwind(std::panic::AssertUnwindSafe(|| sut.parse(pi, &buf)));
        if r.is_err() {
            crate::util::take_panic();
            w.rep.panics_foreign += 1;
            return;
        }
        w.rep.count("calls", 1);
        w.rep.count("hostile_family.calls", 1);
        let after = snap(&sut.parsers[pi]);
        let verdict: Result<(), Div> = (|| {
            for (j, b) in before.iter().enumerate() {
                if j != pi && snap(&sut.parsers[j]) != *b {
                    return Err(div("cache/isolation", "changed", format!("a call on parser {} changed the caches of parser {}", pi, j)));
                }
            }
            let b = &before[pi];
            for k in b.v9_t.keys().chain(b.v9_o.keys()) {
                if !after.v9_t.contains_key(k) && !after.v9_o.contains_key(k) {
                    return Err(div("cache/eviction", "v9", format!("V9 template id {} disappeared", k)));
                }
            }
            for k in b.ix_t.keys().chain(b.ix_o.keys()) {
                if !after.ix_t.contains_key(k) && !after.ix_o.contains_key(k) {
                    return Err(div("cache/eviction", "ipfix", format!("IPFIX template id {} disappeared", k)));
                }
            }
            if data_only {
                w.rep.count("noop.hostile_data_only", 1);
                if after != *b {
                    return Err(div("cache/data-only", "changed", format!("caches changed by a packet that contains only data sets: {}", snap_diff(&after, b))));
                }
            }
            Ok(())
        })();
        if let Err(d) = verdict {
            w.rep.violation(sig("C06", &d), &d, sut.replay_json());
            return;
        }
        if rng.chance(1, 5) {
            let mut st = Stats::default();
            w.rep.count("hostile_family.probes", 1);
            if let Err(d) = conformant_probe(rng, &mut sut, pi, &mut st) {
                w.rep.violation(sig("C06", &d), &d, sut.replay_json());
                return;
            }
        }
        if rng.chance(1, 3) {
            w.rep.count("hostile_family.template_probes", 1);
            if let Err(d) = template_probe(rng, &mut sut, pi, &w.pools) {
                w.rep.violation(sig("C06", &d), &d, sut.replay_json());
                return;
            }
        }
    }
    for pi in 0..np {
        let mut st = Stats::default();
        w.rep.count("hostile_family.probes", 1);
        if let Err(d) = conformant_probe(rng, &mut sut, pi, &mut st) {
            w.rep.violation(sig("C06", &d), &d, sut.replay_json());
            return;
        }
    }
    let s = snap(&sut.parsers[0]);
    w.rep.count("hostile_family.cache_entries_at_end", s.total() as u64);
    w.rep.shape(&shape);
}

/// listed finding: the IPFIX template parser does not use field_count to delimit a record
fn c06_finding_family(w: &mut W, rng: &mut Rng) {
    let cfg = Cfg { small_ids: true, ..Cfg::default() };
    let mut ex = Exporter::new();
    let mut sut = Sut::new(1);
    let variant = rng.below(2);
    let t1 = ex.ipfix_new_template(rng, &cfg, &w.pools);
    let (msg, declared, present): (IpfixMsg, usize, usize);
    if variant == 0 {
        // two template records in one set: merged into one cached template
        let mut t2 = ex.ipfix_new_template(rng, &cfg, &w.pools);
        if t2.id == t1.id {
            t2.id = if t1.id == 259 { 256 } else { t1.id + 1 };
        }
        msg = ex.ipfix_wrap(rng, vec![IpfixSet::Template { records: vec![t1.clone(), t2], padding: vec![] }]);
        declared = t1.fields.len();
        let body = msg.sets[0].body();
        present = super::streams::greedy_specs(&body[4..]).0.len();
    } else {
        // the record announces more fields than the set holds (set ends inside the record)
        let mut wire_t = t1.clone();
        let extra = 1 + rng.usize(3);
        let body = {
            let mut b = wire_t.wire();
            let n = (wire_t.fields.len() + extra) as u16;
            b[2..4].copy_from_slice(&n.to_be_bytes());
            b
        };
        wire_t.fields.truncate(wire_t.fields.len());
        msg = IpfixMsg { export_time: 1, seq: 1, domain: 1, sets: vec![IpfixSet::Orphan { id: 2, body }] };
        declared = t1.fields.len() + extra;
        present = t1.fields.len();
    }
    // half of the time the id is already cached from a well-formed record announcing the same
    // field count: the (listed) greedy definition must *replace* it, not be merged with it
    if rng.chance(1, 2) {
        let pre = IpfixTmpl { id: t1.id, fields: (0..declared).map(|i| IpfixSpec { type_num: 1 + (i % 2) as u16, len: 4, enterprise: None }).collect() };
        if !pre.fields.is_empty() {
            let m = IpfixMsg { export_time: 1, seq: 0, domain: 1, sets: vec![IpfixSet::Template { records: vec![pre], padding: vec![] }] };
            sut.parse(0, &m.wire());
            w.rep.count("family.field_count-not-enforced.predefined", 1);
        }
    }
    let before = snap(&sut.parsers[0]);
    sut.parse(0, &msg.wire());
    w.rep.count("family.field_count-not-enforced", 1);
    let p = &sut.parsers[0];
    match p.ipfix_parser.templates.get(&t1.id) {
        None => {
            // correct for variant 1 (incomplete record must not be cached); for variant 0 the first
            // record is complete and should be cached
            if variant == 0 || snap(p) != before {
                let d = div("cache/ipfix.templates", "multi-record", "complete first template record of a multi-record set was not cached".into());
                w.rep.violation(sig("C06", &d), &d, sut.replay_json());
            }
        }
        Some(g) => {
            if g.field_count as usize == declared && g.fields.len() == present && declared != present {
                w.rep.finding("C06|ipfix|template|field_count-not-enforced|model=greedy-to-end-of-set", || sut.replay_json());
            } else if variant == 0 && g.fields.len() == declared {
                // repaired behaviour: first record cached as sent
            } else if variant == 1 && g.fields.len() == declared && g.fields.iter().all(|f| f.field_length == 4 && f.field_type_number <= 2 && f.enterprise_number.is_none()) {
                // repaired behaviour: the incomplete record was not cached, the earlier definition stays
            } else {
                let d = div("cache/ipfix.templates", "entry", format!("id {}: cached {} fields with field_count {}, neither as sent nor the listed greedy model ({} present)", t1.id, g.fields.len(), g.field_count, present));
                w.rep.violation(sig("C06", &d), &d, sut.replay_json());
            }
        }
    }
}

// ------------------------------------------------------------------------------------ C07

pub fn run_c07(w: &mut W) {
    let mut st = Stats::default();
    for idx in w.indices() {
        let mut rng = w.begin_case(idx, "withheld-template");
        let mut cfg = seq_cfg(&mut rng);
        cfg.cross_kind = false;
        cfg.options = false;
        let v9 = rng.chance(1, 2);
        // 0 never defined, 1 only for the other protocol, 2 only in another parser,
        // 3 only mentioned by a template record the parser rejected (IPFIX: no non-zero-length
        //   field) or that arrived truncated (both protocols)
        // 4 received and used, then removed from the public cache map by the application
        // 5 received and used, then filed under another key of the public map by the application
        //   (the parser holds no template *under that id* any more)
        let reason = rng.below(6);
        let mut ex = Exporter::new();
        let mut sut = Sut::new(2);
        // some known templates + the withheld one
        let mut known_pkts: Vec<Vec<u8>> = vec![];
        for _ in 0..rng.usize(3) {
            let p = if v9 { Pkt::V9(ex.v9_packet(&mut rng, &cfg, &w.pools)) } else { Pkt::Ipfix(ex.ipfix_msg(&mut rng, &cfg, &w.pools)) };
            known_pkts.push(p.wire());
        }
        for p in &known_pkts {
            sut.parse(0, p);
        }
        // the withheld template gets a fresh id
        let fresh_id = |ex: &Exporter, rng: &mut Rng| -> u16 {
            loop {
                let id = 300 + rng.below(2000) as u16;
                if !ex.v9_t.contains_key(&id) && !ex.ix_t.contains_key(&id) {
                    return id;
                }
            }
        };
        // IPFIX: one never-defined orphan in eight uses Set ID 255, the last reserved id (neither a
        // template set nor the id of any template: the set is omitted and defines nothing)
        // V9: one never-defined orphan in eight is a flowset with a reserved id (2-255; often 5, 7, 9 or
        // 10, the values a version word has) whose body continues like the *next packet* of the same
        // exporter (same source id, sequence + 1, then a data flowset for a known template): bytes
        // that look like a packet boundary inside a flowset are still the flowset's body
        let reserved_v9 = v9 && reason == 0 && rng.chance(1, 8);
        let reserved = (!v9 && reason == 0 && rng.chance(1, 8)) || reserved_v9;
        let wid = if reserved_v9 { *rng.pick(&[9u16, 9, 5, 7, 10, 2, 255]) } else if reserved { 255 } else { fresh_id(&ex, &mut rng) };
        let mut shadow = ex.clone();
        let (tmpl_pkt, data_fs_v9, data_set_ix): (Vec<u8>, Option<V9FlowSet>, Option<IpfixSet>);
        // the packet in which the template finally arrives (V9, one time in three): a template
        // flowset of two or three records, the withheld id among companions, ids in any order
        let mut late_pkt: Option<Vec<u8>> = None;
        if v9 {
            let mut t = shadow.v9_new_template(&mut rng, &cfg, &w.pools);
            shadow.v9_t.remove(&t.id);
            t.id = wid;
            shadow.v9_t.insert(wid, t.clone());
            let mut d = shadow.v9_data(&mut rng, &cfg, &t);
            // every fourth orphan carries no complete record: an empty body or a few bytes shorter
            // than one record (still data for an unknown id; once the template is known it is a
            // data flowset with zero records whose body is padding)
            if reason < 4 && rng.chance(1, 4) {
                let rs = t.rec_size();
                let n = if rs <= 1 || rng.chance(1, 2) { 0 } else { 1 + rng.usize((rs - 1).min(3)) };
                let body = rng.bytes(n);
                d = V9FlowSet::Data { tmpl: t.clone(), records: vec![], padding: body };
                w.rep.count("orphans_without_a_complete_record", 1);
            }
            tmpl_pkt = shadow.v9_wrap(&mut rng, &cfg, vec![V9FlowSet::Template { templates: vec![t.clone()], padding: vec![] }]).wire();
            if rng.chance(1, 3) {
                let mut ts = vec![t.clone()];
                for k in 0..1 + rng.usize(2) {
                    let cid = wid ^ (1 << k);
                    let mut c = shadow.v9_new_template(&mut rng, &cfg, &w.pools);
                    shadow.v9_t.remove(&c.id);
                    if shadow.v9_o.contains_key(&cid) || shadow.v9_t.contains_key(&cid) {
                        continue;
                    }
                    // (not entered into the exporter model: nothing refers to the companions before
                    // or after the late packet)
                    c.id = cid;
                    ts.push(c);
                }
                ts.sort_by_key(|x| x.id);
                if rng.chance(2, 3) {
                    ts.reverse();
                }
                if ts.len() > 2 && rng.chance(1, 2) {
                    ts.swap(0, 1);
                }
                if ts.len() > 1 {
                    w.rep.count("late_templates_in_a_multi_record_flowset", 1);
                    late_pkt = Some(shadow.v9_wrap(&mut rng, &cfg, vec![V9FlowSet::Template { templates: ts, padding: vec![] }]).wire());
                }
            }
            data_fs_v9 = Some(d);
            data_set_ix = None;
            match reason {
                1 => {
                    // same id defined for IPFIX on this parser
                    let it = IpfixTmpl { id: wid, fields: vec![IpfixSpec { type_num: 1, len: 4, enterprise: None }, IpfixSpec { type_num: 2, len: 4, enterprise: None }] };
                    let m = shadow.ipfix_wrap(&mut rng, vec![IpfixSet::Template { records: vec![it], padding: vec![] }]);
                    sut.parse(0, &m.wire());
                }
                2 => {
                    sut.parse(1, &tmpl_pkt);
                }
                _ => {}
            }
        } else {
            let mut t = shadow.ipfix_new_template(&mut rng, &cfg, &w.pools);
            shadow.ix_t.remove(&t.id);
            t.id = wid;
            shadow.ix_t.insert(wid, t.clone());
            let mut d = shadow.ipfix_data(&mut rng, &cfg, wid, false, &t.fields);
            if reason < 4 && rng.chance(1, 4) {
                let rs: usize = t.fields.iter().map(|f| if f.len == 65535 { 1 } else { f.len as usize }).sum();
                let n = if rs <= 1 || rng.chance(1, 2) { 0 } else { 1 + rng.usize((rs - 1).min(3)) };
                d = IpfixSet::Data { id: wid, options: false, fields: t.fields.clone(), records: vec![], padding: rng.bytes(n) };
                w.rep.count("orphans_without_a_complete_record", 1);
            }
            if reserved {
                w.rep.count("orphans_with_reserved_set_id_255", 1);
                if rng.chance(1, 2) {
                    // body shaped like a template record
                    let mut p = vec![];
                    p.extend_from_slice(&(300 + rng.below(60000) as u16).to_be_bytes());
                    p.extend_from_slice(&2u16.to_be_bytes());
                    p.extend_from_slice(&[0, 1, 0, 4, 0, 2, 0, 4]);
                    d = IpfixSet::Orphan { id: 255, body: p };
                }
            }
            tmpl_pkt = shadow.ipfix_wrap(&mut rng, vec![IpfixSet::Template { records: vec![t.clone()], padding: vec![] }]).wire();
            data_set_ix = Some(d);
            data_fs_v9 = None;
            match reason {
                1 => {
                    let vt = V9Tmpl { id: wid, fields: vec![(1, 4), (2, 4)] };
                    let m = shadow.v9_wrap(&mut rng, &cfg, vec![V9FlowSet::Template { templates: vec![vt], padding: vec![] }]);
                    sut.parse(0, &m.wire());
                }
                2 => {
                    sut.parse(1, &tmpl_pkt);
                }
                _ => {}
            }
        }
        if reason == 3 {
            if !v9 && rng.chance(1, 2) {
                let nf = 1 + rng.usize(3);
                let fields: Vec<IpfixSpec> = (0..nf).map(|_| IpfixSpec { type_num: *rng.pick(&[65u16, 82, 210, 83, 94]), len: 0, enterprise: None }).collect();
                let m = IpfixMsg { export_time: rng.b32(), seq: rng.b32(), domain: rng.b32(), sets: vec![IpfixSet::Template { records: vec![IpfixTmpl { id: wid, fields }], padding: vec![] }] };
                sut.parse(0, &m.wire());
                w.rep.count("rejected_template_records_sent", 1);
            } else {
                // the real template packet, cut inside its template record
                let hdr = if v9 { 20 } else { 16 };
                let cut = hdr + 5 + rng.usize(tmpl_pkt.len() - hdr - 5);
                sut.parse(0, &tmpl_pkt[..cut]);
                w.rep.count("truncated_template_packets_sent", 1);
            }
        }
        if reason == 4 {
            // the template is received, data for it is decoded (so anything the parser remembers
            // beside the public maps is warm), then the application expires the id
            sut.parse(0, &tmpl_pkt);
            let warm = if v9 { shadow.v9_wrap(&mut rng, &cfg, vec![data_fs_v9.clone().unwrap()]).wire() } else { shadow.ipfix_wrap(&mut rng, vec![data_set_ix.clone().unwrap()]).wire() };
            let r = sut.parse(0, &warm);
            if r.len() != 1 || r[0].is_error() {
                w.rep.inconclusive += 1; // a conformant packet that does not decode is C04/C05's business
                continue;
            }
            let was = sut.evict(0, if v9 { "v9.templates" } else { "ipfix.templates" }, wid);
            if !was {
                w.rep.inconclusive += 1;
                continue;
            }
            w.rep.count("templates_removed_by_application", 1);
        }
        if reason == 5 {
            sut.parse(0, &tmpl_pkt);
            let warm = if v9 { shadow.v9_wrap(&mut rng, &cfg, vec![data_fs_v9.clone().unwrap()]).wire() } else { shadow.ipfix_wrap(&mut rng, vec![data_set_ix.clone().unwrap()]).wire() };
            let r = sut.parse(0, &warm);
            if r.len() != 1 || r[0].is_error() {
                w.rep.inconclusive += 1;
                continue;
            }
            // a key nobody uses: not the withheld id and not an id this exporter ever announced
            // (filing the entry over a live template would replace that template)
            let mut to = 40000 + rng.below(20000) as u16;
            let held = |p: &NetflowParser, k: u16| p.v9_parser.templates.contains_key(&k) || p.v9_parser.options_templates.contains_key(&k) || p.ipfix_parser.templates.contains_key(&k) || p.ipfix_parser.options_templates.contains_key(&k);
            while to == wid || held(&sut.parsers[0], to) || shadow.v9_t.contains_key(&to) || shadow.v9_o.contains_key(&to) || shadow.ix_t.contains_key(&to) || shadow.ix_o.contains_key(&to) {
                to = 256 + rng.below(65280) as u16;
            }
            if !sut.rekey(0, if v9 { "v9.templates" } else { "ipfix.templates" }, wid, to) {
                w.rep.inconclusive += 1;
                continue;
            }
            w.rep.count("templates_rekeyed_by_application", 1);
        }
        w.rep.count(&format!("reason.{}", ["never-defined", "other-protocol-only", "other-parser-only", "rejected-or-truncated-template-only", "removed-by-application", "filed-under-another-key-by-application"][reason as usize]), 1);
        // the packet with the orphan data set: known data sets before/after it
        let pos = rng.below(3); // 0 first, 1 middle, 2 last
        let mk_known_v9 = |ex: &Exporter, rng: &mut Rng| -> Option<V9FlowSet> {
            let ids: Vec<u16> = ex.v9_t.keys().cloned().collect();
            if ids.is_empty() {
                return None;
            }
            let t = ex.v9_t[rng.pick(&ids)].clone();
            Some(ex.v9_data(rng, &cfg, &t))
        };
        let mk_known_ix = |ex: &Exporter, rng: &mut Rng| -> Option<IpfixSet> {
            let ids: Vec<u16> = ex.ix_t.keys().cloned().collect();
            if ids.is_empty() {
                return None;
            }
            let t = ex.ix_t[rng.pick(&ids)].clone();
            Some(ex.ipfix_data(rng, &cfg, t.id, false, &t.fields))
        };
        let lead: Vec<u8> = if rng.chance(1, 2) && !v9 {
            // a decodable packet earlier in the same buffer
            Pkt::Fixed(fixed_pkt(&mut rng, 5, 1)).wire()
        } else if rng.chance(1, 2) {
            Pkt::Fixed(fixed_pkt(&mut rng, 7, 2)).wire()
        } else {
            vec![]
        };
        let before = snap(&sut.parsers[0]);
        let verdict: Result<(), Div>;
        let data_pkt_alone: Vec<u8>;
        if v9 {
            let d = data_fs_v9.clone().unwrap();
            let mut fs = vec![];
            let k1 = mk_known_v9(&ex, &mut rng);
            let k2 = mk_known_v9(&ex, &mut rng);
            match pos {
                0 => {
                    fs.push(d.clone());
                    fs.extend(k1);
                }
                1 => {
                    fs.extend(k1);
                    fs.push(d.clone());
                    fs.extend(k2);
                }
                _ => {
                    fs.extend(k1);
                    fs.push(d.clone());
                }
            }
            // one packet in four also redefines a known template in front of the orphan: what the
            // caches hold afterwards is what they hold after the same packet without the orphan
            let mut control: Option<Snap> = None;
            if !reserved_v9 && rng.chance(1, 4) && !ex.v9_t.is_empty() {
                let ids: Vec<u16> = ex.v9_t.keys().cloned().collect();
                let id = *rng.pick(&ids);
                let mut scratch = ex.clone();
                let mut t = scratch.v9_new_template(&mut rng, &cfg, &w.pools);
                t.id = id;
                let tf = V9FlowSet::Template { templates: vec![t], padding: vec![] };
                let mut c = clone_parser(&sut.parsers[0]);
                let cp = shadow.v9_wrap(&mut rng, &cfg, vec![tf.clone()]);
                c.parse_bytes(&cp.wire());
                control = Some(snap(&c));
                fs.insert(0, tf);
                w.rep.count("orphan_packets_that_also_redefine_a_template", 1);
            }
            if !reserved_v9 && reason == 0 && rng.chance(1, 5) {
                // the orphan's own template follows it *in the same packet*: flowsets are decoded in
                // order, so when the data is reached the parser holds no template for it
                if let Some(V9FlowSet::Data { tmpl, .. }) = &data_fs_v9 {
                    let at = fs.iter().position(|f| f.id() == wid).map(|i| i + 1).unwrap_or(fs.len());
                    fs.insert(at, V9FlowSet::Template { templates: vec![tmpl.clone()], padding: vec![] });
                    w.rep.count("orphans_followed_by_their_template_in_the_same_packet", 1);
                }
            }
            let before = control.unwrap_or(before);
            let mut pkt = shadow.v9_wrap(&mut rng, &cfg, fs);
            if reserved_v9 {
                w.rep.count("orphans_with_reserved_flowset_id_and_packet_shaped_body", 1);
                // body = what follows version+count in the next packet of this exporter
                let mut body = vec![];
                body.extend_from_slice(&pkt.sys_up_time.to_be_bytes());
                body.extend_from_slice(&pkt.unix_secs.to_be_bytes());
                body.extend_from_slice(&pkt.seq.wrapping_add(1).to_be_bytes());
                body.extend_from_slice(&pkt.source_id.to_be_bytes());
                if let Some(k) = mk_known_v9(&ex, &mut rng) {
                    body.extend(k.wire());
                }
                for f in pkt.flowsets.iter_mut() {
                    if f.id() == wid {
                        *f = V9FlowSet::Orphan { id: wid, body: body.clone() };
                    }
                }
            }
            data_pkt_alone = shadow.v9_wrap(&mut rng, &cfg, vec![d]).wire();
            let mut buf = lead.clone();
            buf.extend(pkt.wire());
            let res = sut.parse(0, &buf);
            w.rep.count(&format!("position.{}", ["first", "middle", "last"][pos as usize]), 1);
            verdict = (|| {
                let nlead = if lead.is_empty() { 0 } else { 1 };
                if res.len() != nlead + 1 {
                    return Err(div("withheld/v9", "elements", format!("{} elements {:?}, want {} leading + one error", res.len(), res.iter().map(kind).collect::<Vec<_>>(), nlead)));
                }
                if nlead == 1 && res[0].is_error() {
                    return Err(div("withheld/v9", "leading-lost", "the decodable packet before it was not reported".into()));
                }
                match &res[nlead] {
                    NetflowPacket::Error(e) => {
                        if e.remaining != buf[lead.len()..] {
                            return Err(div("withheld/v9", "error-remaining", "error does not carry the whole V9 packet".into()));
                        }
                    }
                    other => return Err(div("withheld/v9", "decoded", format!("V9 packet with data for unknown template {} reported as {}", wid, kind(other)))),
                }
                if snap(&sut.parsers[0]) != before {
                    return Err(div("withheld/v9/caches", "changed", format!("caches changed: {}", snap_diff(&snap(&sut.parsers[0]), &before))));
                }
                Ok(())
            })();
        } else {
            let d = data_set_ix.clone().unwrap();
            let mut sets = vec![];
            let k1 = mk_known_ix(&ex, &mut rng);
            let k2 = mk_known_ix(&ex, &mut rng);
            let mut nbefore = 0;
            match pos {
                0 => {
                    sets.push(d.clone());
                    sets.extend(k1);
                }
                1 => {
                    if k1.is_some() {
                        nbefore = 1;
                    }
                    sets.extend(k1);
                    sets.push(d.clone());
                    sets.extend(k2);
                }
                _ => {
                    if k1.is_some() {
                        nbefore = 1;
                    }
                    sets.extend(k1);
                    sets.push(d.clone());
                }
            }
            let msg = shadow.ipfix_wrap(&mut rng, sets);
            data_pkt_alone = shadow.ipfix_wrap(&mut rng, vec![d]).wire();
            let mut buf = lead.clone();
            buf.extend(msg.wire());
            let res = sut.parse(0, &buf);
            w.rep.count(&format!("position.{}", ["first", "middle", "last"][pos as usize]), 1);
            verdict = (|| {
                let nlead = if lead.is_empty() { 0 } else { 1 };
                if res.len() != nlead + 1 || res[..nlead].iter().any(|e| e.is_error()) {
                    return Err(div("withheld/ipfix", "elements", format!("{} elements {:?}, want {} leading + the message", res.len(), res.iter().map(kind).collect::<Vec<_>>(), nlead)));
                }
                let g = match &res[nlead] {
                    NetflowPacket::IPFix(g) => g,
                    other => return Err(div("withheld/ipfix", "kind", format!("IPFIX message with data for unknown template reported as {}", kind(other)))),
                };
                // no set attributed to the withheld id
                if g.flowsets.iter().any(|f| f.header.header_id == wid) {
                    return Err(div("withheld/ipfix", "decoded", format!("data set for unknown template {} was turned into a decoded set", wid)));
                }
                // sets before it are decoded as sent (sets after it: listed finding of C05)
                let expect = IpfixMsg { sets: msg.sets[..nbefore].to_vec(), ..msg.clone() };
                let mut gg = g.clone();
                gg.flowsets.truncate(nbefore);
                gg.header.length = expect.wire().len() as u16;
                if g.header.length as usize != msg.wire().len() {
                    return Err(div("withheld/ipfix/header", "value", "header.length is not the length sent".into()));
                }
                check_ipfix(&expect, &gg, &mut st)?;
                if snap(&sut.parsers[0]) != before {
                    return Err(div("withheld/ipfix/caches", "changed", format!("caches changed: {}", snap_diff(&snap(&sut.parsers[0]), &before))));
                }
                Ok(())
            })();
        }
        // once the template arrives the same data bytes decode normally
        let verdict = verdict.and_then(|_| {
            if reserved {
                return Ok(()); // no template can carry the id 255
            }
            sut.parse(0, late_pkt.as_ref().unwrap_or(&tmpl_pkt));
            let res = sut.parse(0, &data_pkt_alone);
            w.rep.count("later_resolved", 1);
            match (res.as_slice(), v9) {
                ([NetflowPacket::V9(g)], true) => {
                    let d = data_fs_v9.clone().unwrap();
                    let exp = V9Pkt { flowsets: vec![d], count: g.header.count, sys_up_time: g.header.sys_up_time, unix_secs: g.header.unix_secs, seq: g.header.sequence_number, source_id: g.header.source_id };
                    check_v9(&exp, g, &mut st)
                }
                ([NetflowPacket::IPFix(g)], false) if matches!(data_set_ix.as_ref().unwrap(), IpfixSet::Data { records, .. } if records.is_empty()) => {
                    // a set without a complete record is not a conformant data set: "decodes normally"
                    // means no record appears; whether the empty set itself is listed is not prescribed
                    use netflow_parser::variable_versions::ipfix::FlowSetBody as B;
                    let recs: usize = g.flowsets.iter().filter(|f| f.header.header_id == wid).map(|f| match &f.body { B::Data(d) => d.fields.len(), B::OptionsData(d) => d.fields.len(), _ => 1 }).sum();
                    if recs != 0 {
                        return Err(div("withheld/resolved", "invented-records", format!("a data set without a complete record decoded into {} record(s) once its template was known", recs)));
                    }
                    Ok(())
                }
                ([NetflowPacket::IPFix(g)], false) => {
                    let d = data_set_ix.clone().unwrap();
                    let exp = IpfixMsg { sets: vec![d], export_time: g.header.export_time, seq: g.header.sequence_number, domain: g.header.observation_domain_id };
                    check_ipfix(&exp, g, &mut st)
                }
                (r, _) => Err(div("withheld/resolved", "elements", format!("after the template arrived the data packet returned {:?}", r.iter().map(kind).collect::<Vec<_>>()))),
            }
        });
        match verdict {
            Ok(()) => {
                w.rep.shape(&format!("{}|{}|{}|lead{}|known{}", if v9 { "v9" } else { "ipfix" }, reason, pos, lead.len().min(1), known_pkts.len()));
                if w.rep.samples.len() < 2 {
                    w.rep.sample(json!({"protocol": if v9 { "v9" } else { "ipfix" }, "withheld_id": wid, "replay": sut.replay_json()}));
                }
            }
            Err(d) => w.rep.violation(sig("C07", &d), &d, sut.replay_json()),
        }
        st.findings.clear();
    }
    w.rep.count("cells", st.cells_total);
}
