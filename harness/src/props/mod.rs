//! workload x monitor wiring per property
pub mod c01;
pub mod c02;
pub mod common;
pub mod cost;
pub mod commonview;
pub mod fixed;
pub mod hist;
pub mod idspace;
pub mod json;
pub mod streams;
pub mod xbuild;

use crate::worker::W;

pub fn dispatch(w: &mut W) {
    match w.prop.as_str() {
        "C01" => c01::run(w),
        "C01-small" => c01::run_small(w),
        "C02" => c02::run(w),
        "C03" => fixed::run_c03(w),
        "C08" => fixed::run_c08(w),
        "C04" => streams::run_c04(w),
        "C05" => streams::run_c05(w),
        "C09" => streams::run_c09(w),
        "C10" => streams::run_c10(w),
        "C06" => hist::run_c06(w),
        "C07" => hist::run_c07(w),
        "C11" => hist::run_c11(w),
        "C12" => hist::run_c12(w),
        "C14" => hist::run_c14(w),
        "C13" => commonview::run_c13(w),
        "C16" => json::run_c16(w),
        "C15" => cost::run(w),
        "C17" => xbuild::run(w),
        other => {
            eprintln!("no worker for property {}", other);
            std::process::exit(2);
        }
    }
}
