//! workload x monitor wiring per property
pub mod c01;
pub mod c02;
pub mod common;

use crate::worker::W;

pub fn dispatch(w: &mut W) {
    match w.prop.as_str() {
        "C01" => c01::run(w),
        "C02" => c02::run(w),
        other => {
            eprintln!("no worker for property {}", other);
            std::process::exit(2);
        }
    }
}
