//! Id-space stress (one-off items of C04, C05, C06 and C16): definitions for thousands of distinct
//! template ids of one kind - far beyond any plausible cache cap, the whole id range 256..=65535
//! in the thorough tier - followed by one data set per id. Decided by M-truth (every id's data is
//! decoded with its own template), M-cache (the library's maps equal the model: nothing evicted,
//! nothing refused, every entry as sent; data leaves them unchanged) and, for C16, by comparing the
//! JSON text of two parser instances fed the same history (the V9 maps are HashMaps with a random
//! seed per instance: any dependence on their iteration order shows here).

use crate::ast::*;
use crate::ctx::{sig, Sut};
use crate::gen_conf::Exporter;
use crate::observe::{kind, snap};
use crate::truth::{check_ipfix, check_v9, div, Div, Stats};
use crate::worker::{W, ONEOFF};
use netflow_parser::NetflowPacket;

pub const KINDS: [&str; 4] = ["v9.templates", "v9.options_templates", "ipfix.templates", "ipfix.options_templates"];

pub struct IdSpace {
    /// the model cache after the definitions (and the data, which changes nothing)
    pub ex: Exporter,
    /// the model cache after the cross-kind epilogue
    pub ex_final: Exporter,
    pub define: Vec<Pkt>,
    pub data: Vec<Pkt>,
    /// cross-kind epilogue: one packet defining templates of the other kind, one with data for them
    pub cross: Vec<Pkt>,
}

fn spec(t: u16, l: u16) -> IpfixSpec {
    IpfixSpec { type_num: t, len: l, enterprise: None }
}

fn val(id: u16, w: usize) -> Vec<u8> {
    // distinct per id, boundary-free: the low bytes of id * 2654435761
    let x = (id as u64).wrapping_mul(2654435761) as u32;
    x.to_be_bytes()[4 - w..].to_vec()
}

/// `n` consecutive ids starting at `first` for one of the four caches
pub fn build(kind: usize, first: u16, n: usize) -> IdSpace {
    let ids: Vec<u16> = (0..n).map(|i| first as usize + i).filter(|x| *x <= 65535).map(|x| x as u16).collect();
    let mut ex = Exporter::new();
    let mut define = vec![];
    let mut data = vec![];
    let w2 = |id: u16| 1 + (id % 4);
    let mut seq = 0u32;
    match kind {
        0 => {
            for chunk in ids.chunks(4000) {
                let templates: Vec<V9Tmpl> = chunk.iter().map(|id| V9Tmpl { id: *id, fields: vec![(1, 4), (2, w2(*id))] }).collect();
                for t in &templates {
                    ex.v9_t.insert(t.id, t.clone());
                }
                seq += 1;
                define.push(Pkt::V9(V9Pkt { count: 1, sys_up_time: 1, unix_secs: 2, seq, source_id: 3, flowsets: vec![V9FlowSet::Template { templates, padding: vec![] }] }));
            }
            for chunk in ids.chunks(3000) {
                let flowsets: Vec<V9FlowSet> = chunk.iter().map(|id| V9FlowSet::Data { tmpl: ex.v9_t[id].clone(), records: vec![vec![(*id as u32).to_be_bytes().to_vec(), val(*id, w2(*id) as usize)]], padding: vec![] }).collect();
                seq += 1;
                data.push(Pkt::V9(V9Pkt { count: flowsets.len() as u16, sys_up_time: 1, unix_secs: 2, seq, source_id: 3, flowsets }));
            }
        }
        1 => {
            for chunk in ids.chunks(3000) {
                let templates: Vec<V9OptTmpl> = chunk.iter().map(|id| V9OptTmpl { id: *id, scope: vec![(1, 4)], opts: vec![(10, 2), (2, w2(*id))] }).collect();
                for t in &templates {
                    ex.v9_o.insert(t.id, t.clone());
                }
                let len: usize = templates.iter().map(|t| t.wire().len()).sum();
                seq += 1;
                define.push(Pkt::V9(V9Pkt { count: 1, sys_up_time: 1, unix_secs: 2, seq, source_id: 3, flowsets: vec![V9FlowSet::OptionsTemplate { templates, padding: vec![0u8; (4 - len % 4) % 4] }] }));
            }
            for chunk in ids.chunks(3000) {
                let flowsets: Vec<V9FlowSet> = chunk
                    .iter()
                    .map(|id| V9FlowSet::OptionsData { tmpl: ex.v9_o[id].clone(), records: vec![(vec![(*id as u32).to_be_bytes().to_vec()], vec![val(*id, 2), val(*id, w2(*id) as usize)])], padding: vec![] })
                    .collect();
                seq += 1;
                data.push(Pkt::V9(V9Pkt { count: flowsets.len() as u16, sys_up_time: 1, unix_secs: 2, seq, source_id: 3, flowsets }));
            }
        }
        2 => {
            for chunk in ids.chunks(3500) {
                let sets: Vec<IpfixSet> = chunk
                    .iter()
                    .map(|id| {
                        let t = IpfixTmpl { id: *id, fields: vec![spec(1, 4), spec(2, w2(*id))] };
                        ex.ix_t.insert(*id, t.clone());
                        IpfixSet::Template { records: vec![t], padding: vec![] }
                    })
                    .collect();
                seq += 1;
                define.push(Pkt::Ipfix(IpfixMsg { export_time: 1, seq, domain: 3, sets }));
            }
            for chunk in ids.chunks(3000) {
                let sets: Vec<IpfixSet> = chunk
                    .iter()
                    .map(|id| IpfixSet::Data { id: *id, options: false, fields: ex.ix_t[id].fields.clone(), records: vec![vec![Cell::fixed((*id as u32).to_be_bytes().to_vec()), Cell::fixed(val(*id, w2(*id) as usize))]], padding: vec![] })
                    .collect();
                seq += 1;
                data.push(Pkt::Ipfix(IpfixMsg { export_time: 1, seq, domain: 3, sets }));
            }
        }
        _ => {
            for chunk in ids.chunks(3000) {
                let sets: Vec<IpfixSet> = chunk
                    .iter()
                    .map(|id| {
                        let t = IpfixOptTmpl { id: *id, scope_count: 1, fields: vec![spec(10, 4), spec(2, w2(*id))] };
                        ex.ix_o.insert(*id, t.clone());
                        IpfixSet::OptionsTemplate { records: vec![t], padding: vec![0, 0] }
                    })
                    .collect();
                seq += 1;
                define.push(Pkt::Ipfix(IpfixMsg { export_time: 1, seq, domain: 3, sets }));
            }
            for chunk in ids.chunks(3000) {
                let sets: Vec<IpfixSet> = chunk
                    .iter()
                    .map(|id| IpfixSet::Data { id: *id, options: true, fields: ex.ix_o[id].fields.clone(), records: vec![vec![Cell::fixed((*id as u32).to_be_bytes().to_vec()), Cell::fixed(val(*id, w2(*id) as usize))]], padding: vec![] })
                    .collect();
                seq += 1;
                data.push(Pkt::Ipfix(IpfixMsg { export_time: 1, seq, domain: 3, sets }));
            }
        }
    }
    // cross-kind epilogue: a template of the *other* kind of the same protocol under a brand-new id
    // (if the id space leaves one) and under an id that is currently cached as this kind (it moves
    // maps), then data for both
    let ex_define = ex.clone();
    let mut cross: Vec<Pkt> = vec![];
    let last = *ids.last().unwrap_or(&256);
    let new_id: Option<u16> = if first > 256 { Some(first - 1) } else if last < 65535 { Some(last + 1) } else { None };
    let moved = ids[ids.len() / 2];
    // the brand-new id first: at that moment the other map is still empty
    let mut cross_ids: Vec<u16> = vec![];
    cross_ids.extend(new_id);
    cross_ids.push(moved);
    match kind {
        0 | 1 => {
            let to_options = kind == 0;
            let mut fs = vec![];
            let mut dfs = vec![];
            for id in &cross_ids {
                if to_options {
                    let t = V9OptTmpl { id: *id, scope: vec![(1, 4)], opts: vec![(10, 2)] };
                    ex.v9_t.remove(id);
                    ex.v9_o.insert(*id, t.clone());
                    fs.push(V9FlowSet::OptionsTemplate { templates: vec![t.clone()], padding: vec![0, 0] });
                    dfs.push(V9FlowSet::OptionsData { tmpl: t, records: vec![(vec![(*id as u32).to_be_bytes().to_vec()], vec![val(*id, 2)])], padding: vec![] });
                } else {
                    let t = V9Tmpl { id: *id, fields: vec![(1, 4), (2, 2)] };
                    ex.v9_o.remove(id);
                    ex.v9_t.insert(*id, t.clone());
                    fs.push(V9FlowSet::Template { templates: vec![t.clone()], padding: vec![] });
                    dfs.push(V9FlowSet::Data { tmpl: t, records: vec![vec![(*id as u32).to_be_bytes().to_vec(), val(*id, 2)]], padding: vec![] });
                }
            }
            seq += 1;
            cross.push(Pkt::V9(V9Pkt { count: fs.len() as u16, sys_up_time: 1, unix_secs: 2, seq, source_id: 3, flowsets: fs }));
            seq += 1;
            cross.push(Pkt::V9(V9Pkt { count: dfs.len() as u16, sys_up_time: 1, unix_secs: 2, seq, source_id: 3, flowsets: dfs }));
        }
        _ => {
            let to_options = kind == 2;
            let mut sets = vec![];
            let mut dsets = vec![];
            for id in &cross_ids {
                if to_options {
                    let t = IpfixOptTmpl { id: *id, scope_count: 1, fields: vec![spec(10, 4), spec(2, 2)] };
                    ex.ix_t.remove(id);
                    ex.ix_o.insert(*id, t.clone());
                    sets.push(IpfixSet::OptionsTemplate { records: vec![t.clone()], padding: vec![0, 0] });
                    dsets.push(IpfixSet::Data { id: *id, options: true, fields: t.fields.clone(), records: vec![vec![Cell::fixed((*id as u32).to_be_bytes().to_vec()), Cell::fixed(val(*id, 2))]], padding: vec![] });
                } else {
                    let t = IpfixTmpl { id: *id, fields: vec![spec(1, 4), spec(2, 2)] };
                    ex.ix_o.remove(id);
                    ex.ix_t.insert(*id, t.clone());
                    sets.push(IpfixSet::Template { records: vec![t.clone()], padding: vec![] });
                    dsets.push(IpfixSet::Data { id: *id, options: false, fields: t.fields.clone(), records: vec![vec![Cell::fixed((*id as u32).to_be_bytes().to_vec()), Cell::fixed(val(*id, 2))]], padding: vec![] });
                }
            }
            seq += 1;
            cross.push(Pkt::Ipfix(IpfixMsg { export_time: 1, seq, domain: 3, sets }));
            seq += 1;
            cross.push(Pkt::Ipfix(IpfixMsg { export_time: 1, seq, domain: 3, sets: dsets }));
        }
    }
    let _ = seq;
    IdSpace { ex: ex_define, ex_final: ex, define, data, cross }
}

fn one(sut: &mut Sut, p: &Pkt, st: &mut Stats) -> Result<(), Div> {
    let wire = p.wire();
    let res = sut.parse(0, &wire);
    match (p, res.as_slice()) {
        (Pkt::V9(a), [NetflowPacket::V9(g)]) => check_v9(a, g, st),
        (Pkt::Ipfix(a), [NetflowPacket::IPFix(g)]) => check_ipfix(a, g, st),
        (_, r) => Err(div("idspace/decode", "elements", format!("conformant {}-byte packet returned {:?}", wire.len(), r.iter().map(kind).collect::<Vec<_>>()))),
    }
}

fn ids_for(w: &W) -> (u16, usize) {
    if w.thorough {
        (256, 65280)
    } else {
        // quick: 6000 consecutive ids from a seed-dependent start
        (256 + ((w.seed.wrapping_mul(7919)) % 50000) as u16, 6000)
    }
}

/// One-off items j0..j0+4 (one per cache): M-truth on every packet, M-cache after the definitions and
/// after the data. Returns the next free one-off index.
pub fn run(w: &mut W, prop: &str, j0: u64, kinds: &[usize]) -> u64 {
    let mut j = j0;
    for &k in kinds {
        if w.oneoff(j) {
            let _ = w.begin_case(ONEOFF + j, "id-space");
            let (first, n) = ids_for(w);
            let sp = build(k, first, n);
            let mut st = Stats::default();
            let mut sut = Sut::new(1);
            let verdict: Result<(), Div> = (|| {
                for p in &sp.define {
                    one(&mut sut, p, &mut st)?;
                }
                super::hist::cache_matches_model(&sut.parsers[0], &sp.ex)?;
                let before = snap(&sut.parsers[0]);
                for p in &sp.data {
                    one(&mut sut, p, &mut st)?;
                }
                if snap(&sut.parsers[0]) != before {
                    return Err(div("idspace/data-only", "changed", "caches changed by packets that contain only data sets".into()));
                }
                // with thousands of ids of one kind cached: templates of the other kind, under a new
                // id and under a cached id (which moves maps), then data for them
                for p in &sp.cross {
                    one(&mut sut, p, &mut st)?;
                }
                super::hist::cache_matches_model(&sut.parsers[0], &sp.ex_final)?;
                Ok(())
            })();
            w.rep.count("idspace.ids_defined", n as u64);
            w.rep.count(&format!("idspace.{}", KINDS[k]), 1);
            w.rep.count("idspace.data_sets_decoded", st.records);
            w.rep.count("cells", st.cells_total);
            w.rep.count("records", st.records);
            w.rep.count("packets", (sp.define.len() + sp.data.len()) as u64);
            w.rep.count("calls", (sp.define.len() + sp.data.len()) as u64);
            w.rep.shape(&format!("idspace {} x{}", KINDS[k], n));
            if let Err(mut d) = verdict {
                d.unit = format!("idspace/{}/{}", KINDS[k], d.unit);
                w.rep.violation(sig(prop, &d), &d, sut.replay_json());
            }
        }
        j += 1;
    }
    j
}

/// C16: the same id-space history on two parser instances; the JSON text of every call must be
/// identical across the instances.
pub fn run_json(w: &mut W, j0: u64) -> u64 {
    let mut j = j0;
    for k in 0..4usize {
        if w.oneoff(j) {
            let _ = w.begin_case(ONEOFF + j, "id-space-json");
            let (first, n) = ids_for(w);
            let n = n.min(12000);
            let sp = build(k, first, n);
            let mut sut = Sut::new(2);
            let mut bad: Option<Div> = None;
            for p in sp.define.iter().chain(sp.data.iter()).chain(sp.cross.iter()) {
                let wire = p.wire();
                let r0 = sut.parse(0, &wire);
                let r1 = sut.parse(1, &wire);
                let t0 = serde_json::to_string(&r0).unwrap_or_default();
                let t1 = serde_json::to_string(&r1).unwrap_or_default();
                w.rep.count("instance_pairs_compared", 1);
                w.rep.count("results_serialized", 1);
                w.rep.count("json_bytes", t0.len() as u64);
                if t0.is_empty() {
                    bad = Some(div("json", "serialize-failed", "serde_json::to_string failed on an id-space result".into()));
                    break;
                }
                if t0 != t1 {
                    bad = Some(div("json/determinism", "instances", format!("two parser instances fed the same history of {} template ids serialize differently", n)));
                    break;
                }
            }
            w.rep.count("idspace.ids_defined", n as u64);
            w.rep.shape(&format!("idspace-json {} x{}", KINDS[k], n));
            if let Some(d) = bad {
                w.rep.violation(sig("C16", &d), &d, sut.replay_json());
            }
        }
        j += 1;
    }
    j
}

/// C01: the id-space histories as plain histories (no oracle; crash / overflow / hang monitors only)
pub fn histories(w: &W) -> Vec<(&'static str, Vec<Vec<u8>>)> {
    let (first, n) = ids_for(w);
    (0..4usize)
        .map(|k| {
            let sp = build(k, first, n);
            let bufs: Vec<Vec<u8>> = sp.define.iter().chain(sp.data.iter()).chain(sp.cross.iter()).map(|p| p.wire()).collect();
            (KINDS[k], bufs)
        })
        .collect()
}
