//! C16 - every parse result serializes to JSON, deterministically and faithfully (M-json).
//! The expected JSON tree is built here from the decoded structure, independently of the
//! library's Serialize implementations, and compared with what serde_json emitted (read back
//! with the harness's own reader).

use super::common::{hostile_history, make_parsers};
use super::hist::{seq_cfg, seq_packet};
use crate::ctx::{sig, Sut};
use crate::gen_conf::Exporter;
use crate::jsonr::{diff, parse, J};
use crate::truth::{div, Div};
use crate::worker::W;
use netflow_parser::static_versions::{v5, v7};
use netflow_parser::variable_versions::data_number::{DataNumber, FieldValue};
use netflow_parser::variable_versions::{ipfix as ix, v9};
use netflow_parser::{NetflowPacket, NetflowParseError};
use serde_json::json;

fn n<T: std::fmt::Display>(x: T) -> J {
    J::Num(format!("{}", x))
}
fn s<T: std::fmt::Display>(x: T) -> J {
    J::Str(format!("{}", x))
}
fn dbg<T: std::fmt::Debug>(x: &T) -> J {
    J::Str(format!("{:?}", x))
}
fn bytes(b: &[u8]) -> J {
    J::Arr(b.iter().map(|x| n(*x)).collect())
}
fn obj(v: Vec<(&str, J)>) -> J {
    J::Obj(v.into_iter().map(|(k, x)| (k.to_string(), x)).collect())
}
fn tag(k: &str, v: J) -> J {
    J::Obj(vec![(k.to_string(), v)])
}

#[derive(Default)]
pub struct JStats {
    pub values: std::collections::BTreeMap<&'static str, u64>,
    pub extreme: u64,
}

fn fv(v: &FieldValue, st: &mut JStats) -> J {
    let mut c = |k: &'static str| *st.values.entry(k).or_insert(0) += 1;
    match v {
        FieldValue::String(x) => {
            c("string");
            tag("String", J::Str(x.clone()))
        }
        FieldValue::DataNumber(d) => {
            c("number");
            let j = match d {
                DataNumber::U8(x) => n(x),
                DataNumber::U16(x) => n(x),
                DataNumber::U24(x) => n(x),
                DataNumber::I24(x) => n(x),
                DataNumber::U32(x) => n(x),
                DataNumber::U64(x) => {
                    if *x > u32::MAX as u64 {
                        st.extreme += 1;
                    }
                    n(x)
                }
                DataNumber::U128(x) => {
                    if *x > u64::MAX as u128 {
                        st.extreme += 1;
                    }
                    n(x)
                }
                DataNumber::I32(x) => n(x),
            };
            tag("DataNumber", j)
        }
        FieldValue::Float64(f) => {
            c("float");
            if f.is_finite() {
                // shortest round-trip spelling is compared by value bits in jsonr::diff
                tag("Float64", J::Num(format!("{:?}", f)))
            } else {
                st.extreme += 1;
                tag("Float64", J::Null)
            }
        }
        FieldValue::Duration(d) => {
            c("duration");
            tag("Duration", obj(vec![("secs", n(d.as_secs())), ("nanos", n(d.subsec_nanos()))]))
        }
        FieldValue::Ip4Addr(a) => {
            c("ipv4");
            tag("Ip4Addr", s(a))
        }
        FieldValue::Ip6Addr(a) => {
            c("ipv6");
            tag("Ip6Addr", s(a))
        }
        FieldValue::MacAddr(m) => {
            c("mac");
            tag("MacAddr", J::Str(m.clone()))
        }
        FieldValue::Vec(b) => {
            c("bytes");
            tag("Vec", bytes(b))
        }
        FieldValue::ProtocolType(p) => {
            c("protocol");
            tag("ProtocolType", dbg(p))
        }
        FieldValue::Unknown(b) => {
            c("unknown");
            tag("Unknown", bytes(b))
        }
        // a value kind this harness does not know (added by a later version of the library): no
        // independent expectation exists, so the library's own serialization is taken as is - what
        // matters is that the harness still builds and every other value stays judged
        #[allow(unreachable_patterns)]
        other => {
            c("other");
            serde_json::to_string(other).ok().and_then(|t| parse(&t).ok()).unwrap_or(J::Null)
        }
    }
}

fn j_v5(v: &v5::V5) -> J {
    let h = &v.header;
    obj(vec![
        ("header", obj(vec![("version", n(h.version)), ("count", n(h.count)), ("sys_up_time", n(h.sys_up_time)), ("unix_secs", n(h.unix_secs)), ("unix_nsecs", n(h.unix_nsecs)), ("flow_sequence", n(h.flow_sequence)), ("engine_type", n(h.engine_type)), ("engine_id", n(h.engine_id)), ("sampling_interval", n(h.sampling_interval))])),
        (
            "flowsets",
            J::Arr(
                v.flowsets
                    .iter()
                    .map(|r| {
                        obj(vec![
                            ("src_addr", s(r.src_addr)),
                            ("dst_addr", s(r.dst_addr)),
                            ("next_hop", s(r.next_hop)),
                            ("input", n(r.input)),
                            ("output", n(r.output)),
                            ("d_pkts", n(r.d_pkts)),
                            ("d_octets", n(r.d_octets)),
                            ("first", n(r.first)),
                            ("last", n(r.last)),
                            ("src_port", n(r.src_port)),
                            ("dst_port", n(r.dst_port)),
                            ("pad1", n(r.pad1)),
                            ("tcp_flags", n(r.tcp_flags)),
                            ("protocol_number", n(r.protocol_number)),
                            ("protocol_type", dbg(&r.protocol_type)),
                            ("tos", n(r.tos)),
                            ("src_as", n(r.src_as)),
                            ("dst_as", n(r.dst_as)),
                            ("src_mask", n(r.src_mask)),
                            ("dst_mask", n(r.dst_mask)),
                            ("pad2", n(r.pad2)),
                        ])
                    })
                    .collect(),
            ),
        ),
    ])
}

fn j_v7(v: &v7::V7) -> J {
    let h = &v.header;
    obj(vec![
        ("header", obj(vec![("version", n(h.version)), ("count", n(h.count)), ("sys_up_time", n(h.sys_up_time)), ("unix_secs", n(h.unix_secs)), ("unix_nsecs", n(h.unix_nsecs)), ("flow_sequence", n(h.flow_sequence)), ("reserved", n(h.reserved))])),
        (
            "flowsets",
            J::Arr(
                v.flowsets
                    .iter()
                    .map(|r| {
                        obj(vec![
                            ("src_addr", s(r.src_addr)),
                            ("dst_addr", s(r.dst_addr)),
                            ("next_hop", s(r.next_hop)),
                            ("input", n(r.input)),
                            ("output", n(r.output)),
                            ("d_pkts", n(r.d_pkts)),
                            ("d_octets", n(r.d_octets)),
                            ("first", n(r.first)),
                            ("last", n(r.last)),
                            ("src_port", n(r.src_port)),
                            ("dst_port", n(r.dst_port)),
                            ("flags_fields_valid", n(r.flags_fields_valid)),
                            ("tcp_flags", n(r.tcp_flags)),
                            ("protocol_number", n(r.protocol_number)),
                            ("protocol_type", dbg(&r.protocol_type)),
                            ("tos", n(r.tos)),
                            ("src_as", n(r.src_as)),
                            ("dst_as", n(r.dst_as)),
                            ("src_mask", n(r.src_mask)),
                            ("dst_mask", n(r.dst_mask)),
                            ("flags_fields_invalid", n(r.flags_fields_invalid)),
                            ("router_src", s(r.router_src)),
                        ])
                    })
                    .collect(),
            ),
        ),
    ])
}

fn j_v9_tf(f: &v9::TemplateField) -> J {
    obj(vec![("field_type_number", n(f.field_type_number)), ("field_type", dbg(&f.field_type)), ("field_length", n(f.field_length))])
}

fn j_v9(v: &v9::V9, st: &mut JStats) -> J {
    let h = &v.header;
    let mut sets = vec![];
    for f in &v.flowsets {
        let body = match &f.body {
            v9::FlowSetBody::Template(t) => tag(
                "Template",
                obj(vec![("templates", J::Arr(t.templates.iter().map(|t| obj(vec![("template_id", n(t.template_id)), ("field_count", n(t.field_count)), ("fields", J::Arr(t.fields.iter().map(j_v9_tf).collect()))])).collect()))]),
            ),
            v9::FlowSetBody::OptionsTemplate(t) => tag(
                "OptionsTemplate",
                obj(vec![(
                    "templates",
                    J::Arr(
                        t.templates
                            .iter()
                            .map(|t| {
                                obj(vec![
                                    ("template_id", n(t.template_id)),
                                    ("options_scope_length", n(t.options_scope_length)),
                                    ("options_length", n(t.options_length)),
                                    ("scope_fields", J::Arr(t.scope_fields.iter().map(|f| obj(vec![("field_type_number", n(f.field_type_number)), ("field_type", dbg(&f.field_type)), ("field_length", n(f.field_length))])).collect())),
                                    ("option_fields", J::Arr(t.option_fields.iter().map(j_v9_tf).collect())),
                                ])
                            })
                            .collect(),
                    ),
                )]),
            ),
            v9::FlowSetBody::Data(d) => {
                let recs: Vec<J> = d
                    .fields
                    .iter()
                    .map(|r| {
                        if r.len() >= 11 {
                            st.extreme += 1;
                        }
                        // records' fields in template order: keys are the field indices in numeric order
                        J::Obj(r.iter().map(|(k, (f, v))| (k.to_string(), J::Arr(vec![dbg(f), fv(v, st)]))).collect())
                    })
                    .collect();
                tag("Data", obj(vec![("fields", J::Arr(recs))]))
            }
            v9::FlowSetBody::OptionsData(d) => {
                let sc: Vec<J> = d
                    .scope_fields
                    .iter()
                    .map(|x| match x {
                        v9::ScopeDataField::System(b) => tag("System", bytes(b)),
                        v9::ScopeDataField::Interface(b) => tag("Interface", bytes(b)),
                        v9::ScopeDataField::LineCard(b) => tag("LineCard", bytes(b)),
                        v9::ScopeDataField::NetFlowCache(b) => tag("NetFlowCache", bytes(b)),
                        v9::ScopeDataField::Template(b) => tag("Template", bytes(b)),
                    })
                    .collect();
                let op: Vec<J> = d.options_fields.iter().map(|x| obj(vec![("field_type", dbg(&x.field_type)), ("field_value", bytes(&x.field_value))])).collect();
                tag("OptionsData", obj(vec![("scope_fields", J::Arr(sc)), ("options_fields", J::Arr(op))]))
            }
        };
        sets.push(obj(vec![("header", obj(vec![("flowset_id", n(f.header.flowset_id)), ("length", n(f.header.length))])), ("body", body)]));
    }
    obj(vec![("header", obj(vec![("version", n(h.version)), ("count", n(h.count)), ("sys_up_time", n(h.sys_up_time)), ("unix_secs", n(h.unix_secs)), ("sequence_number", n(h.sequence_number)), ("source_id", n(h.source_id))])), ("flowsets", J::Arr(sets))])
}

fn j_ix_tf(f: &ix::TemplateField) -> J {
    let mut v = vec![("field_type_number", n(f.field_type_number)), ("field_type", dbg(&f.field_type)), ("field_length", n(f.field_length))];
    if let Some(e) = f.enterprise_number {
        v.push(("enterprise_number", n(e)));
    }
    obj(v)
}

fn j_ix_records(fields: &[std::collections::BTreeMap<usize, (netflow_parser::variable_versions::ipfix_lookup::IPFixField, FieldValue)>], st: &mut JStats) -> J {
    J::Arr(fields.iter().map(|r| J::Obj(r.iter().map(|(k, (f, v))| (k.to_string(), J::Arr(vec![dbg(f), fv(v, st)]))).collect())).collect())
}

fn j_ipfix(v: &ix::IPFix, st: &mut JStats) -> J {
    let h = &v.header;
    let mut sets = vec![];
    for f in &v.flowsets {
        let body = match &f.body {
            ix::FlowSetBody::Template(t) => tag("Template", obj(vec![("template_id", n(t.template_id)), ("field_count", n(t.field_count)), ("fields", J::Arr(t.fields.iter().map(j_ix_tf).collect()))])),
            ix::FlowSetBody::OptionsTemplate(t) => tag("OptionsTemplate", obj(vec![("template_id", n(t.template_id)), ("field_count", n(t.field_count)), ("scope_field_count", n(t.scope_field_count)), ("fields", J::Arr(t.fields.iter().map(j_ix_tf).collect()))])),
            ix::FlowSetBody::Data(d) => tag("Data", obj(vec![("fields", j_ix_records(&d.fields, st))])),
            ix::FlowSetBody::OptionsData(d) => tag("OptionsData", obj(vec![("fields", j_ix_records(&d.fields, st))])),
        };
        sets.push(obj(vec![("header", obj(vec![("header_id", n(f.header.header_id)), ("length", n(f.header.length))])), ("body", body)]));
    }
    obj(vec![("header", obj(vec![("version", n(h.version)), ("length", n(h.length)), ("export_time", n(h.export_time)), ("sequence_number", n(h.sequence_number)), ("observation_domain_id", n(h.observation_domain_id))])), ("flowsets", J::Arr(sets))])
}

pub fn expected(p: &NetflowPacket, st: &mut JStats) -> J {
    match p {
        NetflowPacket::V5(v) => tag("V5", j_v5(v)),
        NetflowPacket::V7(v) => tag("V7", j_v7(v)),
        NetflowPacket::V9(v) => tag("V9", j_v9(v, st)),
        NetflowPacket::IPFix(v) => tag("IPFix", j_ipfix(v, st)),
        NetflowPacket::Error(e) => {
            let err = match &e.error {
                NetflowParseError::Incomplete(m) => tag("Incomplete", J::Str(m.clone())),
                NetflowParseError::Partial(p) => tag("Partial", obj(vec![("version", n(p.version)), ("remaining", bytes(&p.remaining)), ("error", J::Str(p.error.clone()))])),
                NetflowParseError::UnallowedVersion(v) => tag("UnallowedVersion", n(v)),
                NetflowParseError::UnknownVersion(b) => tag("UnknownVersion", bytes(b)),
                #[allow(unreachable_patterns)]
                other => serde_json::to_string(other).ok().and_then(|t| parse(&t).ok()).unwrap_or(J::Null),
            };
            tag("Error", obj(vec![("error", err), ("remaining", bytes(&e.remaining))]))
        }
    }
}

fn check_result(res: &[NetflowPacket], st: &mut JStats) -> Result<usize, Div> {
    let text = serde_json::to_string(res).map_err(|e| div("json", "serialize-failed", format!("serde_json::to_string failed: {}", e)))?;
    let text2 = serde_json::to_string(res).map_err(|e| div("json", "serialize-failed", format!("second serialization failed: {}", e)))?;
    if text != text2 {
        return Err(div("json/determinism", "twice", "serializing the same result twice gives different text".into()));
    }
    let got = parse(&text).map_err(|e| div("json/wellformed", "malformed", format!("output is not well-formed JSON: {}", e)))?;
    let want = J::Arr(res.iter().map(|p| expected(p, st)).collect());
    if let Some((path, g, w)) = diff(&got, &want, "$") {
        // strip indices for the signature
        let mut unit = String::new();
        let mut skip = false;
        for c in path.chars() {
            if c == '[' {
                skip = true;
            } else if c == ']' {
                skip = false;
            } else if !skip && !c.is_ascii_digit() {
                unit.push(c);
            }
        }
        return Err(div(&format!("json/{}", unit), "differs", format!("at {}: JSON has {} but the decoded structure has {}", path, g, w)));
    }
    if text.contains("\"padding\"") {
        return Err(div("json/padding", "present", "padding is serialized".into()));
    }
    Ok(text.len())
}

pub fn run_c16(w: &mut W) {
    let mut st = JStats::default();
    let mut j = super::idspace::run_json(w, 0);
    // error elements with arbitrary remaining bytes: payloads around and beyond the datagram limit
    // (a caller may hand parse_bytes any slice, e.g. a replayed capture)
    for size in [300usize, 65534, 65535, 65536, 65537, 70000, 131072, 262144] {
        for kind in 0..3 {
            if w.oneoff(j) {
                let mut rng = w.begin_case(crate::worker::ONEOFF + j, "large-error-payload");
                let mut sut = Sut::new(2);
                let mut buf: Vec<u8> = vec![];
                match kind {
                    0 => {
                        // allowed but unknown version: UnknownVersion carries the bytes after the version field
                        for p in sut.parsers.iter_mut() {
                            p.allowed_versions.insert(11);
                        }
                        buf.extend_from_slice(&[0, 11]);
                    }
                    1 => {
                        // V9 packet with data for an unknown template: Partial carries the packet
                        buf.extend_from_slice(&[0, 9, 0, 1]);
                        buf.extend(rng.bytes(16));
                        buf.extend_from_slice(&[1, 44, 0, 40]);
                    }
                    _ => {
                        // V5 header announcing more records than present
                        buf.extend_from_slice(&[0, 5, 0xff, 0xff]);
                        buf.extend(rng.bytes(20));
                    }
                }
                while buf.len() < size {
                    buf.push(rng.u8());
                }
                let r0 = sut.parse(0, &buf);
                let r1 = sut.parse(1, &buf);
                w.rep.count("results_serialized", 1);
                w.rep.count("large_error_payloads", 1);
                let has_error = r0.iter().any(|e| e.is_error());
                let v = if !has_error {
                    Err(div("json/large-error", "no-error-element", format!("{}-byte buffer of kind {} returned no error element", size, kind)))
                } else {
                    check_result(&r0, &mut st).and_then(|n| {
                        w.rep.count("json_bytes", n as u64);
                        let t0 = serde_json::to_string(&r0).unwrap_or_default();
                        let t1 = serde_json::to_string(&r1).unwrap_or_default();
                        w.rep.count("instance_pairs_compared", 1);
                        if t0 != t1 {
                            Err(div("json/determinism", "instances", "two parser instances fed the same buffer serialize differently".into()))
                        } else {
                            Ok(())
                        }
                    })
                };
                w.rep.shape(&format!("large-error kind={} size={}", kind, size));
                if let Err(d) = v {
                    // the buffer is reproducible from the case coordinates; keep the replay small
                    let r = if size <= 70000 { sut.replay_json() } else { json!({"note": format!("buffer of {} bytes of kind {}: re-run the case (bin/check --replay)", size, kind)}) };
                    w.rep.violation(sig("C16", &d), &d, r);
                }
            }
            j += 1;
        }
    }
    let _ = j;
    for idx in w.indices() {
        let mut rng = w.begin_case(idx, "json");
        // two parser instances are fed the same history
        let conformant = rng.chance(1, 2);
        let ops: Vec<Vec<u8>>;
        let allowed;
        if conformant {
            let mut cfg = seq_cfg(&mut rng);
            cfg.max_fields = if rng.chance(1, 3) { 16 } else { 6 };
            cfg.signed_wide = true;
            let mut ex = Exporter::new();
            let k = 2 + rng.usize(6);
            ops = (0..k).map(|_| seq_packet(&mut rng, &mut ex, &cfg, &w.pools).wire()).collect();
            allowed = super::common::Allowed::Default;
        } else {
            let h = hostile_history(&mut rng, &w.pools, &w.corpus);
            allowed = h.parsers[0].clone();
            ops = h.ops.into_iter().map(|x| x.1).collect();
        }
        let h = super::common::History { family: "json", parsers: vec![allowed.clone(), allowed], ops: vec![], reconf: vec![] };
        let mut sut = Sut::new(0);
        sut.parsers = make_parsers(&h);
        let mut ok = true;
        let mut shape = String::new();
        for b in &ops {
            let r = std::panic::catch_unwind(std::panic::AssertUnwindSafe(|| (sut.parse(0, b), sut.parse(1, b))));
            let (r0, r1) = match r {
                Ok(x) => x,
                Err(_) => {
                    crate::util::take_panic();
                    w.rep.panics_foreign += 1;
                    ok = false;
                    break;
                }
            };
            w.rep.count("results_serialized", 1);
            match check_result(&r0, &mut st) {
                Ok(nbytes) => w.rep.count("json_bytes", nbytes as u64),
                Err(d) => {
                    w.rep.violation(sig("C16", &d), &d, sut.replay_json());
                    ok = false;
                    break;
                }
            }
            // the same history on another parser instance gives identical text
            let t0 = serde_json::to_string(&r0).unwrap_or_default();
            let t1 = serde_json::to_string(&r1).unwrap_or_default();
            w.rep.count("instance_pairs_compared", 1);
            if t0 != t1 {
                let d = div("json/determinism", "instances", "two parser instances fed the same history serialize differently".into());
                w.rep.violation(sig("C16", &d), &d, sut.replay_json());
                ok = false;
                break;
            }
            for e in &r0 {
                shape.push_str(crate::observe::kind(e));
                shape.push(',');
            }
            shape.push_str(&format!("{};", t0.len() / 64));
        }
        if ok {
            w.rep.shape(&shape);
            if w.rep.samples.len() < 2 && !shape.is_empty() {
                w.rep.sample(json!({"conformant": conformant, "replay": sut.replay_json()}));
            }
        }
    }
    for (k, v) in &st.values {
        w.rep.count(&format!("values.{}", k), *v);
    }
    w.rep.count("extreme_value_cells", st.extreme);
}
