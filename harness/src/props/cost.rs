//! C15 - parsing cost is bounded by input size plus output size (M-alloc).
//! The counting allocator brackets every parse_bytes call of this single-threaded worker.
//! All quantities are deterministic byte/allocation counts; CPU time never decides.

use super::common::{hostile_history, make_parsers};
use crate::alloc::{self, Meas};
use crate::ast::*;
use crate::ctx::Sut;
use crate::observe::{account, Ending};
use crate::truth::{div, Div};
use crate::worker::W;
use netflow_parser::{NetflowPacket, NetflowParser};
use serde_json::json;

// Calibrated on the repaired tree (see DESIGN.md section 7 C15 and section 10): at least 4x the
// worst legitimate ratio observed over the conformant, hostile, mutated and corpus workloads.
pub const A0: f64 = 8192.0; // fixed slack: error strings, small vectors
pub const A0_PER_PACKET: f64 = 65536.0 + 8192.0; // nom::multi::count pre-reserves up to 64 KiB once per failing count-prefixed vector
pub const A1: f64 = 8192.0; // requested bytes per input byte: a fully decoded one-byte IPFIX field costs ~2.6 KB of requests (its own B-tree map, vector doubling) even when the packet is later rejected and the result discarded
pub const A2: f64 = 6.0; // requested bytes per byte of returned result
pub const R0: f64 = 8192.0;
pub const R1_V9: f64 = 2048.0; // result bytes per received byte: a one-byte record is its own B-tree map
pub const R1_IPFIX: f64 = 2048.0; // IPFIX: one B-tree map per decoded field
pub const S_FLOOR: f64 = 65536.0 + 4096.0; // nom caps pre-reservation at 64 KiB

pub struct CallCost {
    pub n: usize,
    pub m: Meas,
    pub result_bytes: usize,
    pub cache_growth: isize,
    pub tails: usize,    // sum of |tail_i| over chained packets (listed finding D18 model)
    pub npackets: usize, // non-error elements
    pub has_ipfix: bool,
    pub tmpl_wire: usize,
    pub zero_len_templates: bool,
    /// cells decoded from fields of declared length 0 (records x zero-length fields), from the
    /// result and the governing cached templates: the allowance of the listed amplification finding
    pub zero_cells: usize,
    /// structural items in the result: packets, sets, template records, field specifiers, records, cells
    pub units: usize,
    /// largest number of zero-length fields in one cached template, before or after the call
    pub zmax: usize,
}

fn cache_has_zero_len(p: &NetflowParser) -> bool {
    p.v9_parser.templates.values().any(|t| t.fields.iter().any(|f| f.field_length == 0))
        || p.v9_parser.options_templates.values().any(|t| t.scope_fields.iter().any(|f| f.field_length == 0) || t.option_fields.iter().any(|f| f.field_length == 0))
        || p.ipfix_parser.templates.values().any(|t| t.fields.iter().any(|f| f.field_length == 0))
        || p.ipfix_parser.options_templates.values().any(|t| t.fields.iter().any(|f| f.field_length == 0))
}

/// largest number of zero-length fields in any one cached template
fn cache_zmax(p: &NetflowParser) -> usize {
    let z9 = p.v9_parser.templates.values().map(|t| t.fields.iter().filter(|f| f.field_length == 0).count());
    let z9o = p.v9_parser.options_templates.values().map(|t| t.scope_fields.iter().filter(|f| f.field_length == 0).count() + t.option_fields.iter().filter(|f| f.field_length == 0).count());
    let zi = p.ipfix_parser.templates.values().map(|t| t.fields.iter().filter(|f| f.field_length == 0).count());
    let zio = p.ipfix_parser.options_templates.values().map(|t| t.fields.iter().filter(|f| f.field_length == 0).count());
    z9.chain(z9o).chain(zi).chain(zio).max().unwrap_or(0)
}

/// cells of the result that were decoded from no bytes at all (empty octet arrays / strings): the
/// state-independent count of what the zero-length amplification finding produces
fn empty_cells(res: &[NetflowPacket]) -> usize {
    use netflow_parser::variable_versions::data_number::FieldValue;
    let empty = |v: &FieldValue| match v {
        FieldValue::Vec(x) => x.is_empty(),
        FieldValue::String(x) => x.is_empty(),
        _ => false,
    };
    let mut n = 0usize;
    for e in res {
        match e {
            NetflowPacket::V9(v) => {
                for f in &v.flowsets {
                    if let netflow_parser::variable_versions::v9::FlowSetBody::Data(d) = &f.body {
                        n += d.fields.iter().map(|r| r.values().filter(|(_, x)| empty(x)).count()).sum::<usize>();
                    }
                }
            }
            NetflowPacket::IPFix(v) => {
                for f in &v.flowsets {
                    use netflow_parser::variable_versions::ipfix::FlowSetBody as B;
                    match &f.body {
                        B::Data(d) => n += d.fields.iter().map(|r| r.values().filter(|(_, x)| empty(x)).count()).sum::<usize>(),
                        B::OptionsData(d) => n += d.fields.iter().map(|r| r.values().filter(|(_, x)| empty(x)).count()).sum::<usize>(),
                        _ => {}
                    }
                }
            }
            _ => {}
        }
    }
    n
}

/// wire size of the cached templates the returned data sets were decoded with
fn templates_used(p: &NetflowParser, res: &[NetflowPacket]) -> usize {
    let mut ids9 = std::collections::BTreeSet::new();
    let mut ids10 = std::collections::BTreeSet::new();
    for e in res {
        match e {
            NetflowPacket::V9(v) => {
                for f in &v.flowsets {
                    if f.header.flowset_id > 1 {
                        ids9.insert(f.header.flowset_id);
                    }
                }
            }
            NetflowPacket::IPFix(v) => {
                for f in &v.flowsets {
                    if f.header.header_id >= 255 {
                        ids10.insert(f.header.header_id);
                    }
                }
            }
            _ => {}
        }
    }
    let mut t = 0usize;
    for id in ids9 {
        if let Some(x) = p.v9_parser.templates.get(&id) {
            t += 4 + 4 * x.fields.len();
        }
        if let Some(x) = p.v9_parser.options_templates.get(&id) {
            t += 6 + 4 * (x.scope_fields.len() + x.option_fields.len());
        }
    }
    for id in ids10 {
        if let Some(x) = p.ipfix_parser.templates.get(&id) {
            t += 4 + 4 * x.fields.len();
        }
        if let Some(x) = p.ipfix_parser.options_templates.get(&id) {
            t += 6 + 4 * x.fields.len();
        }
    }
    t
}

pub fn result_units(res: &[NetflowPacket]) -> usize {
    use netflow_parser::variable_versions::{ipfix as ix, v9};
    let mut u = 0usize;
    for e in res {
        u += 1;
        match e {
            NetflowPacket::V5(v) => u += v.flowsets.len(),
            NetflowPacket::V7(v) => u += v.flowsets.len(),
            NetflowPacket::V9(v) => {
                for f in &v.flowsets {
                    u += 1;
                    match &f.body {
                        v9::FlowSetBody::Template(t) => u += t.templates.iter().map(|x| 1 + x.fields.len()).sum::<usize>(),
                        v9::FlowSetBody::OptionsTemplate(t) => u += t.templates.iter().map(|x| 1 + x.scope_fields.len() + x.option_fields.len()).sum::<usize>(),
                        v9::FlowSetBody::Data(d) => u += d.fields.iter().map(|r| 1 + r.len()).sum::<usize>(),
                        v9::FlowSetBody::OptionsData(d) => u += 1 + d.scope_fields.len() + d.options_fields.len(),
                    }
                }
            }
            NetflowPacket::IPFix(v) => {
                for f in &v.flowsets {
                    u += 1;
                    match &f.body {
                        ix::FlowSetBody::Template(t) => u += 1 + t.fields.len(),
                        ix::FlowSetBody::OptionsTemplate(t) => u += 1 + t.fields.len(),
                        ix::FlowSetBody::Data(d) => u += d.fields.iter().map(|r| r.len()).sum::<usize>(),
                        ix::FlowSetBody::OptionsData(d) => u += d.fields.iter().map(|r| r.len()).sum::<usize>(),
                    }
                }
            }
            NetflowPacket::Error(_) => {}
        }
    }
    u
}

/// Measure one parse_bytes call.
pub fn measure(sut: &mut Sut, pi: usize, buf: &[u8]) -> CallCost {
    let zero_before = cache_has_zero_len(&sut.parsers[pi]);
    let zmax_before = cache_zmax(&sut.parsers[pi]);
    let scope = alloc::begin();
    let res = sut.parsers[pi].parse_bytes(buf);
    let m = alloc::end(scope);
    sut.ops.push((pi, buf.to_vec()));
    let tmpl_wire = templates_used(&sut.parsers[pi], &res);
    let allowed = sut.parsers[pi].allowed_versions.clone();
    let (tails, npackets) = match account(buf, &res, &allowed) {
        Ok(a) => (a.spans.iter().map(|s| buf.len() - s.1).sum::<usize>(), a.spans.len()),
        Err(_) => (0, res.iter().filter(|e| !e.is_error()).count()),
    };
    let has_ipfix = res.iter().any(|e| e.is_ipfix());
    let units = result_units(&res);
    let mut zero_cells = 0usize;
    for e in &res {
        match e {
            NetflowPacket::V9(v) => {
                for f in &v.flowsets {
                    if let netflow_parser::variable_versions::v9::FlowSetBody::Data(d) = &f.body {
                        if let Some(t) = sut.parsers[pi].v9_parser.templates.get(&f.header.flowset_id) {
                            let z = t.fields.iter().filter(|x| x.field_length == 0).count();
                            zero_cells += z * d.fields.len();
                        }
                    }
                }
            }
            NetflowPacket::IPFix(v) => {
                for f in &v.flowsets {
                    use netflow_parser::variable_versions::ipfix::FlowSetBody as B;
                    let (cells, tf) = match &f.body {
                        B::Data(d) => (d.fields.len(), sut.parsers[pi].ipfix_parser.templates.get(&f.header.header_id).map(|t| &t.fields)),
                        B::OptionsData(d) => (d.fields.len(), sut.parsers[pi].ipfix_parser.options_templates.get(&f.header.header_id).map(|t| &t.fields)),
                        _ => (0, None),
                    };
                    if let Some(tf) = tf {
                        let z = tf.iter().filter(|x| x.field_length == 0).count();
                        if !tf.is_empty() {
                            zero_cells += z * (cells / tf.len() + 1);
                        }
                    }
                }
            }
            _ => {}
        }
    }
    // templates may be replaced inside the call that used them: the result itself says how many
    // cells came from no bytes
    zero_cells = zero_cells.max(empty_cells(&res));
    let live_before_drop = alloc::live();
    drop(res);
    let live_after_drop = alloc::live();
    let result_bytes = live_before_drop.saturating_sub(live_after_drop);
    let cache_growth = m.live_delta - result_bytes as isize;
    let zero = zero_before || cache_has_zero_len(&sut.parsers[pi]) || zero_cells > 0;
    let zmax = zmax_before.max(cache_zmax(&sut.parsers[pi]));
    CallCost { n: buf.len(), m, result_bytes, cache_growth, tails, npackets, has_ipfix, tmpl_wire, zero_len_templates: zero, zero_cells, units, zmax }
}

pub enum CostVerdict {
    Held,
    /// within the bounds only after subtracting the listed per-packet tail copies
    TailCopies,
    Tainted, // zero-length templates in the cache: listed amplification finding, bounds not applied
}

pub fn judge(c: &CallCost, stats: &mut CostStats) -> Result<CostVerdict, Div> {
    let n = c.n as f64;
    let r = c.result_bytes as f64;
    let a = c.m.requested as f64;
    let s = c.m.max_single as f64;
    stats.max("result_bytes_minus_16n_per_unit", (r - 16.0 * n).max(0.0) / (c.units as f64 + 1.0));
    // 2. single-request bound: applies always
    // a vector of 24-byte maps, one per decoded one-byte cell, doubled once: 48 bytes per input
    // byte in one request even when the set is rejected at its end and the result discarded
    // Under templates with zero-length fields (listed amplification finding) one received byte can
    // stand for a record of 1 + zmax cells, also in a set that is rejected at its end and discarded:
    // the allowance is exactly that model's factor.
    let s_bound = S_FLOOR.max(64.0 * n * (1.0 + c.zmax as f64)).max(4.0 * r);
    stats.max("single_request_over_bound", s / s_bound);
    if s > s_bound {
        return Err(div("cost/single-request", "exceeds", format!("one allocation request of {} bytes for a {}-byte buffer returning {} bytes of result (bound {})", c.m.max_single, c.n, c.result_bytes, s_bound as u64)));
    }
    // 3'. structural output bound, applies always (also under zero-length templates, whose cells
    // are counted as units): every structural item of the result (packet, set, template record,
    // field specifier, record, cell) may cost a bounded overhead, payload bytes are bounded by the
    // input. Worst legitimate overhead observed: ~670 bytes per item (a one-entry B-tree map).
    let ru_bound = R0 + 2048.0 * c.units as f64 + 16.0 * n;
    if r > ru_bound {
        return Err(div("cost/result-size", "exceeds-structure", format!("result of {} bytes holds only {} structural items for a {}-byte buffer: bound {} (space reserved or retained beyond what was decoded)", c.result_bytes, c.units, c.n, ru_bound as u64)));
    }
    if c.zero_len_templates {
        // listed amplification finding: fields of declared length 0 are materialised per record.
        // The allowance is exactly that model - records x zero-length fields x per-cell cost - so
        // anything else that grows (a reservation, a copy) is still caught.
        let z = c.zero_cells as f64;
        let r1 = if c.has_ipfix { R1_IPFIX } else { R1_V9 };
        let r_bound = R0 + r1 * (n + c.tmpl_wire as f64) + 2048.0 * z;
        if r > r_bound {
            return Err(div("cost/result-size", "exceeds-zero-length-model", format!("result of {} bytes for {} received bytes (+{} template bytes) with {} zero-length cells: bound {}", c.result_bytes, c.n, c.tmpl_wire, c.zero_cells, r_bound as u64)));
        }
        let a_bound = A0 + A0_PER_PACKET * (1.0 + c.npackets as f64) + A1 * n + A2 * r + 8192.0 * z;
        if a > a_bound {
            return Err(div("cost/requested", "exceeds-zero-length-model", format!("{} bytes requested for a {}-byte buffer returning {} bytes with {} zero-length cells; bound {}", c.m.requested, c.n, c.result_bytes, c.zero_cells, a_bound as u64)));
        }
        return Ok(CostVerdict::Tainted);
    }
    // 3. output bound
    let r1 = if c.has_ipfix { R1_IPFIX } else { R1_V9 };
    let r_bound = R0 + r1 * (n + c.tmpl_wire as f64);
    stats.max(if c.has_ipfix { "result_over_received.ipfix" } else { "result_over_received.other" }, r / (n + c.tmpl_wire as f64 + 1.0));
    if r > r_bound {
        return Err(div("cost/result-size", "exceeds", format!("result of {} bytes for {} received bytes (+{} template bytes): bound {}", c.result_bytes, c.n, c.tmpl_wire, r_bound as u64)));
    }
    // 1. work bound
    let a_bound = A0 + A0_PER_PACKET * (1.0 + c.npackets as f64) + A1 * n + A2 * r;
    // the per-packet tail copies were repaired (fixed entry in known_findings.json): nothing is subtracted
    let resid = a;
    stats.max("requested_over_bound_without_tail_copies", resid / a_bound);
    stats.max("requested_per_input_byte", a / (n + 1.0));
    if a <= a_bound {
        return Ok(CostVerdict::Held);
    }
    if resid <= a_bound {
        return Ok(CostVerdict::TailCopies);
    }
    Err(div("cost/requested", "exceeds", format!("{} bytes requested ({} allocations) for a {}-byte buffer returning {} bytes of result; {} after subtracting the listed per-packet tail copies; bound {}", c.m.requested, c.m.count, c.n, c.result_bytes, resid as u64, a_bound as u64)))
}

#[derive(Default)]
pub struct CostStats {
    pub maxima: std::collections::BTreeMap<&'static str, f64>,
}
impl CostStats {
    pub fn max(&mut self, k: &'static str, v: f64) {
        let e = self.maxima.entry(k).or_insert(v);
        if v > *e {
            *e = v;
        }
    }
}

fn p16(o: &mut Vec<u8>, v: u16) {
    o.extend_from_slice(&v.to_be_bytes());
}
fn p32(o: &mut Vec<u8>, v: u32) {
    o.extend_from_slice(&v.to_be_bytes());
}

/// Doubling families: (name, max k, builder(k) -> history). Each member at size k and 2k.
pub fn family(name: &str, k: usize) -> Vec<Vec<u8>> {
    let v9hdr = |count: u16| {
        let mut o = vec![];
        p16(&mut o, 9);
        p16(&mut o, count);
        o.extend(vec![0u8; 16]);
        o
    };
    let ixhdr = |len: usize| {
        let mut o = vec![];
        p16(&mut o, 10);
        p16(&mut o, len as u16);
        o.extend(vec![0u8; 12]);
        o
    };
    match name {
        "ipfix-announced-field-count" => {
            // template announcing 65535 fields but carrying one; then k data sets for it
            let mut t = ixhdr(16 + 12);
            p16(&mut t, 2);
            p16(&mut t, 12);
            p16(&mut t, 256);
            p16(&mut t, 65535);
            p16(&mut t, 1);
            p16(&mut t, 4);
            let mut d = ixhdr(16 + 8 * k);
            for _ in 0..k {
                p16(&mut d, 256);
                p16(&mut d, 8);
                p32(&mut d, 7);
            }
            vec![t, d]
        }
        "v9-announced-scope-lengths" => {
            // options template with k scope fields and data for it
            let mut t = v9hdr(1);
            p16(&mut t, 1);
            p16(&mut t, (10 + 4 * k) as u16);
            p16(&mut t, 256);
            p16(&mut t, (4 * k) as u16);
            p16(&mut t, 0);
            for _ in 0..k {
                p16(&mut t, 1);
                p16(&mut t, 1);
            }
            let mut d = v9hdr(1);
            p16(&mut d, 256);
            p16(&mut d, (4 + k) as u16);
            d.extend(vec![1u8; k]);
            vec![t, d]
        }
        "chained-v5-empty" => {
            let mut d = vec![];
            for _ in 0..k {
                p16(&mut d, 5);
                p16(&mut d, 0);
                d.extend(vec![0u8; 20]);
            }
            vec![d]
        }
        "chained-v7-empty" => {
            let mut d = vec![];
            for _ in 0..k {
                p16(&mut d, 7);
                p16(&mut d, 0);
                d.extend(vec![0u8; 20]);
            }
            vec![d]
        }
        "chained-v5-one-record" => {
            let mut d = vec![];
            for _ in 0..k {
                p16(&mut d, 5);
                p16(&mut d, 1);
                d.extend(vec![3u8; 20 + 48]);
            }
            vec![d]
        }
        "chained-v7-one-record" => {
            let mut d = vec![];
            for _ in 0..k {
                p16(&mut d, 7);
                p16(&mut d, 1);
                d.extend(vec![3u8; 20 + 52]);
            }
            vec![d]
        }
        "chained-v9-with-data" => {
            let t = V9Pkt { count: 1, sys_up_time: 0, unix_secs: 0, seq: 0, source_id: 0, flowsets: vec![V9FlowSet::Template { templates: vec![V9Tmpl { id: 256, fields: vec![(1, 4)] }], padding: vec![] }] };
            let mut d = vec![];
            for _ in 0..k {
                d.extend(v9hdr(1));
                p16(&mut d, 256);
                p16(&mut d, 8);
                p32(&mut d, 7);
            }
            vec![t.wire(), d]
        }
        "chained-v9-empty" => {
            let mut d = vec![];
            for _ in 0..k {
                d.extend(v9hdr(0));
            }
            vec![d]
        }
        "chained-ipfix-empty" => {
            let mut d = vec![];
            for _ in 0..k {
                d.extend(ixhdr(16));
            }
            vec![d]
        }
        "v5-records" => {
            let mut d = vec![];
            p16(&mut d, 5);
            p16(&mut d, k as u16);
            d.extend(vec![3u8; 20 + 48 * k]);
            vec![d]
        }
        "v7-records" => {
            let mut d = vec![];
            p16(&mut d, 7);
            p16(&mut d, k as u16);
            d.extend(vec![3u8; 20 + 52 * k]);
            vec![d]
        }
        "v9-flowsets" => {
            // k template flowsets each defining one small template
            let mut d = v9hdr(k as u16);
            for i in 0..k {
                p16(&mut d, 0);
                p16(&mut d, 12);
                p16(&mut d, 256 + (i % 8) as u16);
                p16(&mut d, 1);
                p16(&mut d, 1);
                p16(&mut d, 4);
            }
            vec![d]
        }
        "v9-templates-per-flowset" => {
            let mut d = v9hdr(1);
            p16(&mut d, 0);
            p16(&mut d, (4 + 8 * k) as u16);
            for i in 0..k {
                p16(&mut d, 256 + (i % 8) as u16);
                p16(&mut d, 1);
                p16(&mut d, 1);
                p16(&mut d, 4);
            }
            vec![d]
        }
        "v9-fields-per-template" => {
            let mut t = v9hdr(1);
            p16(&mut t, 0);
            p16(&mut t, (8 + 4 * k) as u16);
            p16(&mut t, 256);
            p16(&mut t, k as u16);
            for _ in 0..k {
                p16(&mut t, 1);
                p16(&mut t, 1);
            }
            let mut d = v9hdr(1);
            p16(&mut d, 256);
            p16(&mut d, (4 + k) as u16);
            d.extend(vec![1u8; k]);
            vec![t, d]
        }
        "v9-records" => {
            let t = V9Pkt { count: 1, sys_up_time: 0, unix_secs: 0, seq: 0, source_id: 0, flowsets: vec![V9FlowSet::Template { templates: vec![V9Tmpl { id: 256, fields: vec![(1, 4)] }], padding: vec![] }] };
            let mut d = v9hdr(1);
            p16(&mut d, 256);
            p16(&mut d, (4 + 4 * k) as u16);
            d.extend(vec![1u8; 4 * k]);
            vec![t.wire(), d]
        }
        "v9-records-failing" => {
            // unsupported width: every record attempt fails
            let t = V9Pkt { count: 1, sys_up_time: 0, unix_secs: 0, seq: 0, source_id: 0, flowsets: vec![V9FlowSet::Template { templates: vec![V9Tmpl { id: 256, fields: vec![(1, 5)] }], padding: vec![] }] };
            let mut d = v9hdr(1);
            p16(&mut d, 256);
            p16(&mut d, (4 + 5 * k) as u16);
            d.extend(vec![1u8; 5 * k]);
            vec![t.wire(), d]
        }
        "ipfix-sets" => {
            let mut body = vec![];
            for i in 0..k {
                p16(&mut body, 2);
                p16(&mut body, 12);
                p16(&mut body, 256 + (i % 8) as u16);
                p16(&mut body, 1);
                p16(&mut body, 1);
                p16(&mut body, 4);
            }
            let mut d = ixhdr(16 + body.len());
            d.extend(body);
            vec![d]
        }
        "ipfix-fields-per-template" => {
            let mut t = ixhdr(16 + 8 + 4 * k);
            p16(&mut t, 2);
            p16(&mut t, (8 + 4 * k) as u16);
            p16(&mut t, 256);
            p16(&mut t, k as u16);
            for _ in 0..k {
                p16(&mut t, 1);
                p16(&mut t, 1);
            }
            let mut d = ixhdr(16 + 4 + k);
            p16(&mut d, 256);
            p16(&mut d, (4 + k) as u16);
            d.extend(vec![1u8; k]);
            vec![t, d]
        }
        "ipfix-records" => {
            let t = IpfixMsg { export_time: 0, seq: 0, domain: 0, sets: vec![IpfixSet::Template { records: vec![IpfixTmpl { id: 256, fields: vec![IpfixSpec { type_num: 1, len: 4, enterprise: None }] }], padding: vec![] }] };
            let mut d = ixhdr(16 + 4 + 4 * k);
            p16(&mut d, 256);
            p16(&mut d, (4 + 4 * k) as u16);
            d.extend(vec![1u8; 4 * k]);
            vec![t.wire(), d]
        }
        "ipfix-varlen-records" => {
            let t = IpfixMsg { export_time: 0, seq: 0, domain: 0, sets: vec![IpfixSet::Template { records: vec![IpfixTmpl { id: 256, fields: vec![IpfixSpec { type_num: 82, len: 65535, enterprise: None }] }], padding: vec![] }] };
            let mut d = ixhdr(16 + 4 + 3 * k);
            p16(&mut d, 256);
            p16(&mut d, (4 + 3 * k) as u16);
            for _ in 0..k {
                d.extend_from_slice(&[2, b'h', b'i']);
            }
            vec![t.wire(), d]
        }
        "ipfix-messages-with-data" => {
            // k chained messages each with one small data set (template learned first)
            let t = IpfixMsg { export_time: 0, seq: 0, domain: 0, sets: vec![IpfixSet::Template { records: vec![IpfixTmpl { id: 256, fields: vec![IpfixSpec { type_num: 1, len: 4, enterprise: None }] }], padding: vec![] }] };
            let mut d = vec![];
            for _ in 0..k {
                d.extend(ixhdr(16 + 8));
                p16(&mut d, 256);
                p16(&mut d, 8);
                p32(&mut d, 7);
            }
            vec![t.wire(), d]
        }
        "v9-data-flowsets" => {
            // k data flowsets of one record each under a cached template
            let t = V9Pkt { count: 1, sys_up_time: 0, unix_secs: 0, seq: 0, source_id: 0, flowsets: vec![V9FlowSet::Template { templates: vec![V9Tmpl { id: 256, fields: vec![(1, 4)] }], padding: vec![] }] };
            let mut d = v9hdr(k as u16);
            for _ in 0..k {
                p16(&mut d, 256);
                p16(&mut d, 8);
                p32(&mut d, 7);
            }
            vec![t.wire(), d]
        }
        "v9-templates-distinct-ids" => {
            // one template flowset defining k templates with k distinct ids (cache growth)
            let mut d = v9hdr(1);
            p16(&mut d, 0);
            p16(&mut d, (4 + 8 * k) as u16);
            for i in 0..k {
                p16(&mut d, 256 + i as u16);
                p16(&mut d, 1);
                p16(&mut d, 1);
                p16(&mut d, 4);
            }
            vec![d]
        }
        "v9-options-templates-per-flowset" => {
            let mut d = v9hdr(1);
            p16(&mut d, 1);
            p16(&mut d, (4 + 14 * k + (4 - (4 + 14 * k) % 4) % 4) as u16);
            for i in 0..k {
                p16(&mut d, 256 + (i % 8) as u16);
                p16(&mut d, 4);
                p16(&mut d, 4);
                p16(&mut d, 1);
                p16(&mut d, 4);
                p16(&mut d, 1);
                p16(&mut d, 4);
            }
            d.extend(vec![0u8; (4 - (4 + 14 * k) % 4) % 4]);
            vec![d]
        }
        "ipfix-data-sets" => {
            // k data sets of one record each in one message under a cached template
            let t = IpfixMsg { export_time: 0, seq: 0, domain: 0, sets: vec![IpfixSet::Template { records: vec![IpfixTmpl { id: 256, fields: vec![IpfixSpec { type_num: 1, len: 4, enterprise: None }] }], padding: vec![] }] };
            let mut d = ixhdr(16 + 8 * k);
            for _ in 0..k {
                p16(&mut d, 256);
                p16(&mut d, 8);
                p32(&mut d, 7);
            }
            vec![t.wire(), d]
        }
        "ipfix-template-sets-distinct-ids" => {
            let mut body = vec![];
            for i in 0..k {
                p16(&mut body, 2);
                p16(&mut body, 12);
                p16(&mut body, 256 + i as u16);
                p16(&mut body, 1);
                p16(&mut body, 1);
                p16(&mut body, 4);
            }
            let mut d = ixhdr(16 + body.len());
            d.extend(body);
            vec![d]
        }
        "ipfix-options-template-sets" => {
            let mut body = vec![];
            for i in 0..k {
                p16(&mut body, 3);
                p16(&mut body, 20);
                p16(&mut body, 256 + (i % 8) as u16);
                p16(&mut body, 2);
                p16(&mut body, 1);
                p16(&mut body, 1);
                p16(&mut body, 4);
                p16(&mut body, 2);
                p16(&mut body, 2);
                p16(&mut body, 0);
            }
            let mut d = ixhdr(16 + body.len());
            d.extend(body);
            vec![d]
        }
        "ipfix-options-records" => {
            // options template (one scope field, one option field), then k records of 6 bytes
            let mut t = ixhdr(16 + 18);
            p16(&mut t, 3);
            p16(&mut t, 18);
            p16(&mut t, 256);
            p16(&mut t, 2);
            p16(&mut t, 1);
            p16(&mut t, 1);
            p16(&mut t, 4);
            p16(&mut t, 2);
            p16(&mut t, 2);
            p16(&mut t, 0);
            let mut d = ixhdr(16 + 4 + 6 * k);
            p16(&mut d, 256);
            p16(&mut d, (4 + 6 * k) as u16);
            d.extend(vec![1u8; 6 * k]);
            vec![t, d]
        }
        "ipfix-enterprise-fields-per-template" => {
            let mut t = ixhdr(16 + 8 + 8 * k);
            p16(&mut t, 2);
            p16(&mut t, (8 + 8 * k) as u16);
            p16(&mut t, 256);
            p16(&mut t, k as u16);
            for i in 0..k {
                p16(&mut t, 0x8000 | (1 + (i % 400) as u16));
                p16(&mut t, 1);
                p32(&mut t, 9 + (i % 7) as u32);
            }
            let mut d = ixhdr(16 + 4 + k);
            p16(&mut d, 256);
            p16(&mut d, (4 + k) as u16);
            d.extend(vec![1u8; k]);
            vec![t, d]
        }
        "ipfix-wide-records" => {
            // template with 64 four-byte fields, k records of 256 bytes
            let nf = 64usize;
            let mut t = ixhdr(16 + 8 + 4 * nf);
            p16(&mut t, 2);
            p16(&mut t, (8 + 4 * nf) as u16);
            p16(&mut t, 256);
            p16(&mut t, nf as u16);
            for i in 0..nf {
                p16(&mut t, 1 + (i % 2) as u16);
                p16(&mut t, 4);
            }
            let mut d = ixhdr(16 + 4 + 4 * nf * k);
            p16(&mut d, 256);
            p16(&mut d, (4 + 4 * nf * k) as u16);
            d.extend(vec![1u8; 4 * nf * k]);
            vec![t, d]
        }
        "v9-wide-records" => {
            let nf = 64usize;
            let mut t = v9hdr(1);
            p16(&mut t, 0);
            p16(&mut t, (8 + 4 * nf) as u16);
            p16(&mut t, 256);
            p16(&mut t, nf as u16);
            for i in 0..nf {
                p16(&mut t, 1 + (i % 2) as u16);
                p16(&mut t, 4);
            }
            let mut d = v9hdr(1);
            p16(&mut d, 256);
            p16(&mut d, (4 + 4 * nf * k) as u16);
            d.extend(vec![1u8; 4 * nf * k]);
            vec![t, d]
        }
        "chained-v9-template-packets" => {
            // k chained V9 packets, each (re)defining one small template
            let mut d = vec![];
            for i in 0..k {
                d.extend(v9hdr(1));
                p16(&mut d, 0);
                p16(&mut d, 12);
                p16(&mut d, 256 + (i % 8) as u16);
                p16(&mut d, 1);
                p16(&mut d, 1);
                p16(&mut d, 4);
            }
            vec![d]
        }
        "chained-ipfix-template-messages" => {
            let mut d = vec![];
            for i in 0..k {
                d.extend(ixhdr(16 + 12));
                p16(&mut d, 2);
                p16(&mut d, 12);
                p16(&mut d, 256 + (i % 8) as u16);
                p16(&mut d, 1);
                p16(&mut d, 1);
                p16(&mut d, 4);
            }
            vec![d]
        }
        "chained-v9-options-template-packets" => {
            let mut d = vec![];
            for i in 0..k {
                d.extend(v9hdr(1));
                p16(&mut d, 1);
                p16(&mut d, 20);
                p16(&mut d, 256 + (i % 8) as u16);
                p16(&mut d, 4);
                p16(&mut d, 4);
                p16(&mut d, 1);
                p16(&mut d, 4);
                p16(&mut d, 1);
                p16(&mut d, 4);
                p16(&mut d, 0);
            }
            vec![d]
        }
        "ipfix-varlen-zero-records" => {
            // k empty variable-length values (one zero octet each), then one non-empty record: work
            // that depends on the *values* (a scan for padding, a search for a terminator) shows here
            let t = IpfixMsg { export_time: 0, seq: 0, domain: 0, sets: vec![IpfixSet::Template { records: vec![IpfixTmpl { id: 256, fields: vec![IpfixSpec { type_num: 82, len: 65535, enterprise: None }] }], padding: vec![] }] };
            let mut d = ixhdr(16 + 4 + k + 2);
            p16(&mut d, 256);
            p16(&mut d, (4 + k + 2) as u16);
            d.extend(vec![0u8; k]);
            d.extend_from_slice(&[1, b'x']);
            vec![t.wire(), d]
        }
        "ipfix-zero-records" => {
            let t = IpfixMsg { export_time: 0, seq: 0, domain: 0, sets: vec![IpfixSet::Template { records: vec![IpfixTmpl { id: 256, fields: vec![IpfixSpec { type_num: 1, len: 4, enterprise: None }] }], padding: vec![] }] };
            let mut d = ixhdr(16 + 4 + 4 * k + 4);
            p16(&mut d, 256);
            p16(&mut d, (4 + 4 * k + 4) as u16);
            d.extend(vec![0u8; 4 * k]);
            p32(&mut d, 7);
            vec![t.wire(), d]
        }
        "v9-zero-records" => {
            let t = V9Pkt { count: 1, sys_up_time: 0, unix_secs: 0, seq: 0, source_id: 0, flowsets: vec![V9FlowSet::Template { templates: vec![V9Tmpl { id: 256, fields: vec![(1, 4)] }], padding: vec![] }] };
            let mut d = v9hdr(1);
            p16(&mut d, 256);
            p16(&mut d, (4 + 4 * k + 4) as u16);
            d.extend(vec![0u8; 4 * k]);
            p32(&mut d, 7);
            vec![t.wire(), d]
        }
        "ipfix-ones-records" => {
            let t = IpfixMsg { export_time: 0, seq: 0, domain: 0, sets: vec![IpfixSet::Template { records: vec![IpfixTmpl { id: 256, fields: vec![IpfixSpec { type_num: 1, len: 4, enterprise: None }] }], padding: vec![] }] };
            let mut d = ixhdr(16 + 4 + 4 * k + 4);
            p16(&mut d, 256);
            p16(&mut d, (4 + 4 * k + 4) as u16);
            d.extend(vec![0xffu8; 4 * k]);
            p32(&mut d, 7);
            vec![t.wire(), d]
        }
        "v9-kind-flips" => {
            // one packet, k flowsets: template 256, options template 256, template 256, ... (every
            // flowset moves the id to the other map)
            let mut d = v9hdr(k as u16);
            for i in 0..k {
                if i % 2 == 0 {
                    p16(&mut d, 0);
                    p16(&mut d, 12);
                    p16(&mut d, 256);
                    p16(&mut d, 1);
                    p16(&mut d, 1);
                    p16(&mut d, 4);
                } else {
                    p16(&mut d, 1);
                    p16(&mut d, 20);
                    p16(&mut d, 256);
                    p16(&mut d, 4);
                    p16(&mut d, 4);
                    p16(&mut d, 1);
                    p16(&mut d, 4);
                    p16(&mut d, 1);
                    p16(&mut d, 4);
                    p16(&mut d, 0);
                }
            }
            vec![d]
        }
        "ipfix-kind-flips" => {
            let mut body = vec![];
            for i in 0..k {
                if i % 2 == 0 {
                    p16(&mut body, 2);
                    p16(&mut body, 12);
                    p16(&mut body, 256);
                    p16(&mut body, 1);
                    p16(&mut body, 1);
                    p16(&mut body, 4);
                } else {
                    p16(&mut body, 3);
                    p16(&mut body, 20);
                    p16(&mut body, 256);
                    p16(&mut body, 2);
                    p16(&mut body, 1);
                    p16(&mut body, 1);
                    p16(&mut body, 4);
                    p16(&mut body, 2);
                    p16(&mut body, 2);
                    p16(&mut body, 0);
                }
            }
            let mut d = ixhdr(16 + body.len());
            d.extend(body);
            vec![d]
        }
        "ipfix-varlen-data-sets" => {
            // k data sets of one short record each under a variable-length template
            let t = IpfixMsg { export_time: 0, seq: 0, domain: 0, sets: vec![IpfixSet::Template { records: vec![IpfixTmpl { id: 256, fields: vec![IpfixSpec { type_num: 82, len: 65535, enterprise: None }] }], padding: vec![] }] };
            let mut d = ixhdr(16 + 7 * k);
            for _ in 0..k {
                p16(&mut d, 256);
                p16(&mut d, 7);
                d.extend_from_slice(&[2, b'h', b'i']);
            }
            vec![t.wire(), d]
        }
        "v9-small-data-flowsets-wide-template" => {
            // k data flowsets of one record each under a 16-field template
            let nf = 16usize;
            let mut t = v9hdr(1);
            p16(&mut t, 0);
            p16(&mut t, (8 + 4 * nf) as u16);
            p16(&mut t, 256);
            p16(&mut t, nf as u16);
            for i in 0..nf {
                p16(&mut t, 1 + (i % 2) as u16);
                p16(&mut t, 4);
            }
            let mut d = v9hdr(k as u16);
            for _ in 0..k {
                p16(&mut d, 256);
                p16(&mut d, (4 + 4 * nf) as u16);
                d.extend(vec![7u8; 4 * nf]);
            }
            vec![t, d]
        }
        "v9-data-before-templates" | "v9-known-then-data-before-templates" => {
            // one packet: k one-record data flowsets under k pairwise distinct ids nobody has
            // defined yet, then one template flowset that defines all k (an exporter that sends
            // data ahead of its templates); the second form opens with a data flowset of a cached
            // template so that the walk gets past the first flowset
            let known = name == "v9-known-then-data-before-templates";
            let mut pre = v9hdr(1);
            p16(&mut pre, 0);
            p16(&mut pre, 12);
            p16(&mut pre, 60000);
            p16(&mut pre, 1);
            p16(&mut pre, 1);
            p16(&mut pre, 4);
            let mut d = v9hdr((k + 1 + known as usize) as u16);
            if known {
                p16(&mut d, 60000);
                p16(&mut d, 8);
                d.extend([9u8; 4]);
            }
            for i in 0..k {
                p16(&mut d, 256 + i as u16);
                p16(&mut d, 8);
                d.extend([7u8; 4]);
            }
            p16(&mut d, 0);
            p16(&mut d, (4 + 8 * k) as u16);
            for i in 0..k {
                p16(&mut d, 256 + i as u16);
                p16(&mut d, 1);
                p16(&mut d, 1 + (i % 2) as u16);
                p16(&mut d, 4);
            }
            if known { vec![pre, d] } else { vec![d] }
        }
        "v9-options-data-template-scope" => {
            // a wide data template (id 256), an options template (id 257) whose only scope field
            // is a Template scope (type 5, 2 bytes), then k six-byte options data flowsets whose
            // scope value names the wide template: a value that cross-references another cache entry
            let nf = 1000usize;
            let mut t = v9hdr(1);
            p16(&mut t, 0);
            p16(&mut t, (8 + 4 * nf) as u16);
            p16(&mut t, 256);
            p16(&mut t, nf as u16);
            for i in 0..nf {
                p16(&mut t, 1 + (i % 2) as u16);
                p16(&mut t, 1);
            }
            let mut o = v9hdr(1);
            p16(&mut o, 1);
            p16(&mut o, 14);
            p16(&mut o, 257);
            p16(&mut o, 4);
            p16(&mut o, 0);
            p16(&mut o, 5);
            p16(&mut o, 2);
            let mut d = v9hdr(k as u16);
            for _ in 0..k {
                p16(&mut d, 257);
                p16(&mut d, 6);
                p16(&mut d, 256);
            }
            vec![t, o, d]
        }
        "ipfix-data-before-templates" => {
            // the IPFIX form: k data sets of unknown ids, then one template set defining them
            let mut body = vec![];
            for i in 0..k {
                p16(&mut body, 256 + i as u16);
                p16(&mut body, 8);
                body.extend([7u8; 4]);
            }
            p16(&mut body, 2);
            p16(&mut body, (4 + 8 * k) as u16);
            for i in 0..k {
                p16(&mut body, 256 + i as u16);
                p16(&mut body, 1);
                p16(&mut body, 1 + (i % 2) as u16);
                p16(&mut body, 4);
            }
            let mut d = ixhdr(16 + body.len());
            d.extend(body);
            vec![d]
        }
        "mixed-version-chain" => {
            // k groups of (V5 header, V7 header, V9 header, IPFIX header)
            let mut d = vec![];
            for _ in 0..k {
                p16(&mut d, 5);
                p16(&mut d, 0);
                d.extend(vec![0u8; 20]);
                p16(&mut d, 7);
                p16(&mut d, 0);
                d.extend(vec![0u8; 20]);
                d.extend(v9hdr(0));
                d.extend(ixhdr(16));
            }
            vec![d]
        }
        _ => vec![],
    }
}

pub const FAMILIES: &[(&str, usize)] = &[
    ("chained-v5-empty", 1024),
    ("chained-v9-empty", 1024),
    ("chained-v7-empty", 1024),
    ("chained-v5-one-record", 512),
    ("chained-v7-one-record", 512),
    ("chained-v9-with-data", 1024),
    ("chained-ipfix-empty", 2048),
    ("v5-records", 512),
    ("v7-records", 512),
    ("v9-flowsets", 2048),
    ("v9-templates-per-flowset", 4096),
    ("v9-fields-per-template", 8192),
    ("v9-records", 8192),
    ("v9-records-failing", 4096),
    ("ipfix-sets", 2048),
    ("ipfix-fields-per-template", 8192),
    ("ipfix-records", 8192),
    ("ipfix-varlen-records", 8192),
    ("ipfix-messages-with-data", 1024),
    ("ipfix-announced-field-count", 4096),
    ("v9-announced-scope-lengths", 8192),
    ("v9-data-flowsets", 4096),
    ("v9-templates-distinct-ids", 4096),
    ("v9-options-templates-per-flowset", 4096),
    ("ipfix-data-sets", 4096),
    ("ipfix-template-sets-distinct-ids", 4096),
    ("ipfix-options-template-sets", 2048),
    ("ipfix-options-records", 8192),
    ("ipfix-enterprise-fields-per-template", 4096),
    ("ipfix-wide-records", 128),
    ("v9-wide-records", 128),
    ("mixed-version-chain", 512),
    ("chained-v9-template-packets", 1024),
    ("chained-ipfix-template-messages", 1024),
    ("chained-v9-options-template-packets", 1024),
    ("ipfix-varlen-zero-records", 8192),
    ("ipfix-zero-records", 8192),
    ("v9-zero-records", 8192),
    ("ipfix-ones-records", 8192),
    ("v9-kind-flips", 2048),
    ("ipfix-kind-flips", 2048),
    ("ipfix-varlen-data-sets", 8192),
    ("v9-small-data-flowsets-wide-template", 512),
    ("v9-data-before-templates", 2048),
    ("v9-known-then-data-before-templates", 2048),
    ("ipfix-data-before-templates", 2048),
    ("v9-options-data-template-scope", 4096),
];

/// Fill all four caches of a parser with `p` unrelated templates of 64 fields each (ids from 20000
/// upwards; the doubling families use ids 256..4352), through parse_bytes as an exporter would.
pub fn preload(parser: &mut NetflowParser, p: usize) {
    let nf = 64usize;
    let ids: Vec<u16> = (0..p).map(|i| 20000 + i as u16).collect();
    for chunk in ids.chunks(200) {
        // V9 templates
        let mut d = vec![];
        p16(&mut d, 9);
        p16(&mut d, 1);
        d.extend(vec![0u8; 16]);
        p16(&mut d, 0);
        p16(&mut d, (4 + chunk.len() * (4 + 4 * nf)) as u16);
        for id in chunk {
            p16(&mut d, *id);
            p16(&mut d, nf as u16);
            for i in 0..nf {
                p16(&mut d, 1 + (i % 2) as u16);
                p16(&mut d, 4);
            }
        }
        let _ = parser.parse_bytes(&d);
        // V9 options templates (ids offset by 20000)
        let mut d = vec![];
        p16(&mut d, 9);
        p16(&mut d, 1);
        d.extend(vec![0u8; 16]);
        p16(&mut d, 1);
        let rec = 6 + 4 + 4 * nf;
        let total = 4 + chunk.len() * rec;
        p16(&mut d, (total + (4 - total % 4) % 4) as u16);
        for id in chunk {
            p16(&mut d, id + 20000);
            p16(&mut d, 4);
            p16(&mut d, (4 * nf) as u16);
            p16(&mut d, 1);
            p16(&mut d, 4);
            for i in 0..nf {
                p16(&mut d, 1 + (i % 2) as u16);
                p16(&mut d, 4);
            }
        }
        d.extend(vec![0u8; (4 - total % 4) % 4]);
        let _ = parser.parse_bytes(&d);
        // IPFIX templates and options templates: one record per set
        let mut body = vec![];
        for id in chunk {
            p16(&mut body, 2);
            p16(&mut body, (8 + 4 * nf) as u16);
            p16(&mut body, *id);
            p16(&mut body, nf as u16);
            for i in 0..nf {
                p16(&mut body, 1 + (i % 2) as u16);
                p16(&mut body, 4);
            }
        }
        for half in body.chunks(100 * (8 + 4 * nf)) {
            let mut d = vec![];
            p16(&mut d, 10);
            p16(&mut d, (16 + half.len()) as u16);
            d.extend(vec![0u8; 12]);
            d.extend_from_slice(half);
            let _ = parser.parse_bytes(&d);
        }
        let mut body = vec![];
        for id in chunk {
            p16(&mut body, 3);
            p16(&mut body, (12 + 4 * nf) as u16);
            p16(&mut body, id + 20000);
            p16(&mut body, nf as u16);
            p16(&mut body, 1);
            for i in 0..nf {
                p16(&mut body, 1 + (i % 2) as u16);
                p16(&mut body, 4);
            }
            p16(&mut body, 0);
        }
        for half in body.chunks(100 * (12 + 4 * nf)) {
            let mut d = vec![];
            p16(&mut d, 10);
            p16(&mut d, (16 + half.len()) as u16);
            d.extend(vec![0u8; 12]);
            d.extend_from_slice(half);
            let _ = parser.parse_bytes(&d);
        }
    }
}

pub const PRELOAD: usize = 2048;

/// returns the cost of the last call of the family member of size k on a parser whose caches
/// already hold PRELOAD unrelated templates per map
fn run_family_preloaded(name: &str, k: usize) -> (CallCost, Sut) {
    run_family_preloaded_n(name, k, PRELOAD)
}

fn run_family_preloaded_n(name: &str, k: usize, n: usize) -> (CallCost, Sut) {
    let bufs = family(name, k);
    let mut sut = Sut::new(1);
    preload(&mut sut.parsers[0], n);
    let mut last = None;
    for b in &bufs {
        last = Some(measure(&mut sut, 0, b));
    }
    (last.unwrap(), sut)
}

/// returns (requested, peak, tails) of the last call of the family member of size k
fn run_family(name: &str, k: usize) -> (CallCost, Sut) {
    let bufs = family(name, k);
    let mut sut = Sut::new(1);
    let mut last = None;
    for b in &bufs {
        last = Some(measure(&mut sut, 0, b));
    }
    (last.unwrap(), sut)
}

pub fn run(w: &mut W) {
    let mut stats = CostStats::default();
    // ---- 4. doubling tests (constant-free): exhaustive over the family list and k = 16..max
    let mut j = 0u64;
    for (name, maxk) in FAMILIES {
        let mut k = 16usize;
        while k * 2 <= *maxk {
            if w.oneoff(j) {
                let _ = w.begin_case(crate::worker::ONEOFF + j, name);
                let (c1, _) = run_family(name, k);
                let (c2, sut2) = run_family(name, 2 * k);
                w.rep.count("doubling_pairs", 1);
                w.rep.count("calls_measured", 2);
                let a1 = c1.m.requested as f64;
                let a2 = c2.m.requested as f64;
                let r1 = (c1.m.requested - c1.tails.min(c1.m.requested)) as f64;
                let r2 = (c2.m.requested - c2.tails.min(c2.m.requested)) as f64;
                let p1 = c1.m.peak_delta as f64;
                let p2 = c2.m.peak_delta as f64;
                let slack = 65536.0 + 4096.0;
                let ratio_a = a2 / a1.max(1.0);
                let ratio_r = r2 / r1.max(1.0);
                let ratio_p = p2 / p1.max(1.0);
                w.rep.max(&format!("doubling.requested.{}", name), ratio_a);
                w.rep.max(&format!("doubling.requested_minus_tail_copies.{}", name), ratio_r);
                w.rep.max(&format!("doubling.peak.{}", name), ratio_p);
                w.rep.shape(&format!("doubling {} k={}", name, k));
                let lin = |x2: f64, x1: f64| x2 <= 2.0 * x1 * 1.25 + slack;
                if !lin(p2, p1) {
                    let d = div(&format!("cost/doubling/{}", name), "peak-superlinear", format!("peak live bytes grow from {} (k={}) to {} (k={}): ratio {:.2}", p1, k, p2, 2 * k, ratio_p));
                    w.rep.violation(format!("C15|cost/doubling/{}|peak-superlinear", name), &d, sut2.replay_json());
                } else if !lin(a2, a1) {
                    if lin(r2, r1) {
                        w.rep.finding("C15|chained-packets|tail-copy-per-packet|model=sum-of-tails", || json!({"family": name, "k": k, "requested_k": a1, "requested_2k": a2, "note": "requested bytes grow quadratically with the number of chained packets; linear after subtracting one copy of the remaining buffer per packet", "replay": {"parsers": [[5,7,9,10]], "ops": [{"parser": 0, "hex": crate::util::hex(&family(name, 64)[0])}]}}));
                    } else {
                        let d = div(&format!("cost/doubling/{}", name), "requested-superlinear", format!("bytes requested grow from {} (k={}) to {} (k={}): ratio {:.2} (after subtracting listed tail copies {:.2})", a1, k, a2, 2 * k, ratio_a, ratio_r));
                        w.rep.violation(format!("C15|cost/doubling/{}|requested-superlinear", name), &d, sut2.replay_json());
                    }
                }
                // the absolute bounds on the large member as well
                match judge(&c2, &mut stats) {
                    Ok(_) => {}
                    Err(d) => w.rep.violation(crate::ctx::sig("C15", &d), &d, sut2.replay_json()),
                }
            }
            j += 1;
            k *= 2;
        }
    }
    // ---- 4b. cache-size independence: the same member on a parser whose caches hold thousands of
    //      unrelated templates must not request more than on a fresh parser (beyond the growth of
    //      the maps it inserts into): cost depends on the buffer and the result, not on the state
    for (name, maxk) in FAMILIES {
        if w.oneoff(j) {
            let _ = w.begin_case(crate::worker::ONEOFF + j, name);
            let k = (*maxk / 4).max(16);
            let (c1, _) = run_family(name, k);
            let (c2, sut2) = run_family_preloaded(name, k);
            w.rep.count("preload_pairs", 1);
            w.rep.count("calls_measured", 2);
            let a1 = c1.m.requested as f64;
            let a2 = c2.m.requested as f64;
            w.rep.max(&format!("preload.requested_extra.{}", name), (a2 - a1).max(0.0));
            w.rep.max("preload.max_requested_extra", (a2 - a1).max(0.0));
            w.rep.shape(&format!("preload {} k={}", name, k));
            let entries = { let p = &sut2.parsers[0]; p.v9_parser.templates.len() + p.v9_parser.options_templates.len() + p.ipfix_parser.templates.len() + p.ipfix_parser.options_templates.len() };
            w.rep.max("preload.cache_entries", entries as f64);
            w.rep.max("preload.min_requested_delta_negated", (a1 - a2).max(0.0));
            // A legitimate difference is the growth of the maps the call inserts into (a rehash of a
            // table that already holds the preloaded entries: at most ~2 x entries x 64 bytes per
            // map); anything that scales with packets x cache size is far beyond it.
            let allowance = 4.0 * 2.0 * (PRELOAD as f64) * 64.0 + 65536.0;
            if entries < 4 * PRELOAD {
                w.rep.inconclusive += 1; // the preload did not take: nothing can be concluded
            } else if a2 > a1 + allowance {
                let d = div(&format!("cost/cache-size/{}", name), "requested-depends-on-cache", format!("{} bytes requested with {} unrelated templates cached, {} on a fresh parser (k={}): the difference exceeds the growth allowance {}", a2, entries, a1, k, allowance));
                w.rep.violation(format!("C15|cost/cache-size/{}|requested-depends-on-cache", name), &d, json!({"family": name, "k": k, "note": "preload = cost::preload(parser, 2048) before the family's buffers", "ops_without_preload": sut2.replay_json()["ops"].as_array().map(|a| a.len()).unwrap_or(0)}));
            }
        }
        j += 1;
    }
    // ---- 4c. the same for cache sizes that sit exactly on a hash table's growth threshold
    //      (7/8 of a power of two, with and without the family's own id): a map that is shrunk or
    //      rebuilt whenever an entry moves shows here - each flip then costs the whole table
    for name in ["v9-kind-flips", "ipfix-kind-flips", "chained-v9-template-packets", "v9-templates-distinct-ids"] {
        for pre in [1791usize, 1792, 3583, 3584] {
            if w.oneoff(j) {
                let _ = w.begin_case(crate::worker::ONEOFF + j, name);
                let k = 256usize;
                let (c1, _) = run_family(name, k);
                let (c2, sut2) = run_family_preloaded_n(name, k, pre);
                w.rep.count("preload_pairs", 1);
                w.rep.count("threshold_preload_pairs", 1);
                w.rep.count("calls_measured", 2);
                let a1 = c1.m.requested as f64;
                let a2 = c2.m.requested as f64;
                w.rep.max("preload.max_requested_extra_at_growth_threshold", (a2 - a1).max(0.0));
                w.rep.shape(&format!("threshold-preload {} pre={}", name, pre));
                let allowance = 4.0 * 2.0 * (pre as f64) * 64.0 * 2.0 + 65536.0;
                if a2 > a1 + allowance {
                    let d = div(&format!("cost/cache-size/{}", name), "requested-depends-on-cache", format!("{} bytes requested with {} unrelated templates per map cached (a hash-table growth threshold), {} on a fresh parser (k={}): the difference exceeds the growth allowance {}", a2, pre, a1, k, allowance));
                    w.rep.violation(format!("C15|cost/cache-size/{}|requested-depends-on-cache", name), &d, json!({"family": name, "k": k, "preload": pre, "note": "cost::preload(parser, preload) before the family's buffers", "ops_after_preload": sut2.replay_json()["ops"].as_array().map(|a| a.len()).unwrap_or(0)}));
                }
            }
            j += 1;
        }
    }
    // ---- 4e. history independence: a small member (k = 64) on a parser that has just decoded the
    //      largest member of the same family (same templates, a much bigger buffer) must not
    //      request more than on a fresh parser: what earlier buffers looked like is not an input
    for (name, maxk) in FAMILIES {
        if w.oneoff(j) {
            let _ = w.begin_case(crate::worker::ONEOFF + j, name);
            let k = 64usize.min(*maxk);
            let (c1, _) = run_family(name, k);
            let mut sut = Sut::new(1);
            for b in &family(name, *maxk) {
                let _ = sut.parsers[0].parse_bytes(b);
            }
            // a single huge record / set first as well (for per-id high-water marks)
            let mut last = None;
            for b in &family(name, k) {
                last = Some(measure(&mut sut, 0, b));
            }
            let c2 = last.unwrap();
            w.rep.count("history_pairs", 1);
            w.rep.count("calls_measured", 2);
            let a1 = c1.m.requested as f64;
            let a2 = c2.m.requested as f64;
            w.rep.max("history.max_requested_extra", (a2 - a1).max(0.0));
            w.rep.shape(&format!("history {} k={}", name, k));
            if a2 > a1 + 262144.0 {
                let d = div(&format!("cost/history/{}", name), "requested-depends-on-earlier-buffers", format!("{} bytes requested for the k={} member after the parser had decoded the k={} member of the same family, {} on a fresh parser", a2, k, maxk, a1));
                w.rep.violation(format!("C15|cost/history/{}|requested-depends-on-earlier-buffers", name), &d, json!({"family": name, "k": k, "history": format!("family member k={} first", maxk)}));
            }
        }
        j += 1;
    }
    // ---- 4f. the same across families that share a template: one huge set / flowset first, then a
    //      buffer of many tiny sets under the same template (a per-id high-water mark, a capacity
    //      hint learned from earlier traffic shows here: sets x largest set ever seen)
    for (big, small) in [("ipfix-varlen-records", "ipfix-varlen-data-sets"), ("ipfix-records", "ipfix-data-sets"), ("v9-records", "v9-data-flowsets"), ("ipfix-varlen-zero-records", "ipfix-varlen-data-sets"), ("ipfix-records", "ipfix-messages-with-data"), ("v9-records", "chained-v9-with-data")] {
        if w.oneoff(j) {
            let _ = w.begin_case(crate::worker::ONEOFF + j, small);
            let k = 256usize;
            let (c1, _) = run_family(small, k);
            let maxk = FAMILIES.iter().find(|f| f.0 == big).map(|f| f.1).unwrap_or(1024);
            let mut sut = Sut::new(1);
            for b in &family(big, maxk) {
                let _ = sut.parsers[0].parse_bytes(b);
            }
            let mut last = None;
            for b in &family(small, k) {
                last = Some(measure(&mut sut, 0, b));
            }
            let c2 = last.unwrap();
            w.rep.count("history_pairs", 1);
            w.rep.count("calls_measured", 2);
            let a1 = c1.m.requested as f64;
            let a2 = c2.m.requested as f64;
            w.rep.max("history.max_requested_extra", (a2 - a1).max(0.0));
            w.rep.shape(&format!("history {} after {}", small, big));
            if a2 > a1 + 262144.0 {
                let d = div(&format!("cost/history/{}", small), "requested-depends-on-earlier-buffers", format!("{} bytes requested for {} (k={}) after the parser had decoded {} (k={}) under the same template, {} on a fresh parser", a2, small, k, big, maxk, a1));
                w.rep.violation(format!("C15|cost/history/{}|requested-depends-on-earlier-buffers", small), &d, json!({"family": small, "k": k, "history": format!("{} k={} first", big, maxk)}));
            }
        }
        j += 1;
    }
    // ---- 4d. announced-length independence: k short data flowsets / sets under a cached template
    //      whose (last) field announces 64 bytes, and the same buffer under a template announcing
    //      the maximum: the values are not there in either case, so what is requested must not
    //      follow the announced length (beyond one bounded reservation)
    for kind in 0..4usize {
        if w.oneoff(j) {
            let name = ["v9-data", "v9-options-data", "ipfix-data", "ipfix-options-data"][kind];
            let _ = w.begin_case(crate::worker::ONEOFF + j, name);
            let k = 256usize;
            let v9hdr = |count: u16| {
                let mut o = vec![];
                p16(&mut o, 9);
                p16(&mut o, count);
                o.extend(vec![0u8; 16]);
                o
            };
            let ixhdr = |len: usize| {
                let mut o = vec![];
                p16(&mut o, 10);
                p16(&mut o, len as u16);
                o.extend(vec![0u8; 12]);
                o
            };
            let build = |len: u16| -> Vec<Vec<u8>> {
                let mut t = vec![];
                let mut d = vec![];
                match kind {
                    0 => {
                        t.extend(v9hdr(1));
                        t.extend_from_slice(&[0, 0, 0, 16, 1, 0, 0, 2, 0, 1, 0, 4]);
                        p16(&mut t, 94);
                        p16(&mut t, len);
                        d.extend(v9hdr(k as u16));
                        for _ in 0..k {
                            d.extend_from_slice(&[1, 0, 0, 12, 0, 0, 0, 7, 1, 2, 3, 4]);
                        }
                    }
                    1 => {
                        t.extend(v9hdr(1));
                        t.extend_from_slice(&[0, 1, 0, 20, 1, 0, 0, 4, 0, 4, 0, 1, 0, 4]);
                        p16(&mut t, 82);
                        p16(&mut t, len);
                        t.extend_from_slice(&[0, 0]);
                        d.extend(v9hdr(k as u16));
                        for _ in 0..k {
                            d.extend_from_slice(&[1, 0, 0, 12, 0, 0, 0, 7, 1, 2, 3, 4]);
                        }
                    }
                    2 => {
                        t.extend(ixhdr(16 + 16));
                        t.extend_from_slice(&[0, 2, 0, 16, 1, 0, 0, 2, 0, 1, 0, 4]);
                        p16(&mut t, 82);
                        p16(&mut t, len);
                        d.extend(ixhdr(16 + 12 * k));
                        for _ in 0..k {
                            d.extend_from_slice(&[1, 0, 0, 12, 0, 0, 0, 7, 1, 2, 3, 4]);
                        }
                    }
                    _ => {
                        t.extend(ixhdr(16 + 20));
                        t.extend_from_slice(&[0, 3, 0, 20, 1, 0, 0, 2, 0, 1, 0, 1, 0, 4]);
                        p16(&mut t, 82);
                        p16(&mut t, len);
                        t.extend_from_slice(&[0, 0]);
                        d.extend(ixhdr(16 + 12 * k));
                        for _ in 0..k {
                            d.extend_from_slice(&[1, 0, 0, 12, 0, 0, 0, 7, 1, 2, 3, 4]);
                        }
                    }
                }
                vec![t, d]
            };
            let run = |bufs: &[Vec<u8>]| -> (CallCost, Sut) {
                let mut sut = Sut::new(1);
                let mut last = None;
                for b in bufs {
                    last = Some(measure(&mut sut, 0, b));
                }
                (last.unwrap(), sut)
            };
            let (c1, s1) = run(&build(64));
            let (c2, s2) = run(&build(65534));
            w.rep.count("announced_length_pairs", 1);
            w.rep.count("calls_measured", 4);
            let cached = |s: &Sut| { let p = &s.parsers[0]; p.v9_parser.templates.len() + p.v9_parser.options_templates.len() + p.ipfix_parser.templates.len() + p.ipfix_parser.options_templates.len() };
            let a1 = c1.m.requested as f64;
            let a2 = c2.m.requested as f64;
            w.rep.max(&format!("announced_length.requested_extra.{}", name), (a2 - a1).max(0.0));
            w.rep.shape(&format!("announced-length {}", name));
            if cached(&s1) == 0 || cached(&s2) == 0 {
                w.rep.inconclusive += 1; // the template was not accepted: nothing can be concluded
            } else if a2 > a1 + 262144.0 {
                let d = div(&format!("cost/announced-length/{}", name), "requested-follows-announced-length", format!("{} short {} sets under a template announcing 65534 bytes request {} bytes, {} under a template announcing 64 (the values are absent in both)", k, name, a2, a1));
                w.rep.violation(format!("C15|cost/announced-length/{}|requested-follows-announced-length", name), &d, s2.replay_json());
            }
        }
        j += 1;
    }
    // ---- headers announcing huge counts over short bodies (single-request bound)
    let announce: Vec<(&str, Vec<u8>)> = {
        let mut v: Vec<(&str, Vec<u8>)> = vec![];
        for (name, ver) in [("v5-count-65535", 5u16), ("v7-count-65535", 7u16)] {
            let mut d = vec![];
            p16(&mut d, ver);
            p16(&mut d, 65535);
            d.extend(vec![0u8; 20 + 52]);
            v.push((name, d));
        }
        let mut d = vec![];
        p16(&mut d, 9);
        p16(&mut d, 65535);
        d.extend(vec![0u8; 16]);
        p16(&mut d, 0);
        p16(&mut d, 12);
        p16(&mut d, 256);
        p16(&mut d, 65535);
        p16(&mut d, 1);
        p16(&mut d, 4);
        v.push(("v9-count-65535-template-field-count-65535", d));
        let mut d = vec![];
        p16(&mut d, 9);
        p16(&mut d, 1);
        d.extend(vec![0u8; 16]);
        p16(&mut d, 1);
        p16(&mut d, 14);
        p16(&mut d, 256);
        p16(&mut d, 65532);
        p16(&mut d, 65532);
        p16(&mut d, 1);
        p16(&mut d, 4);
        v.push(("v9-options-template-lengths-65532", d));
        let mut d = vec![];
        p16(&mut d, 10);
        p16(&mut d, 30);
        d.extend(vec![0u8; 12]);
        p16(&mut d, 3);
        p16(&mut d, 14);
        p16(&mut d, 256);
        p16(&mut d, 65535);
        p16(&mut d, 0);
        p16(&mut d, 1);
        p16(&mut d, 4);
        v.push(("ipfix-options-template-field-count-65535", d));
        let mut d = vec![];
        p16(&mut d, 10);
        p16(&mut d, 28);
        d.extend(vec![0u8; 12]);
        p16(&mut d, 2);
        p16(&mut d, 12);
        p16(&mut d, 256);
        p16(&mut d, 65535);
        p16(&mut d, 1);
        p16(&mut d, 4);
        v.push(("ipfix-template-field-count-65535", d));
        v
    };
    // ---- pre-sizing by an estimate instead of by what is parsed: one long record under a
    //      template with many zero-length fields (the result is tiny, so any reservation that
    //      scales with set length x field count stands out in the single-request bound)
    let mut two_step: Vec<(&str, Vec<Vec<u8>>)> = vec![];
    {
        let nz = 60usize;
        let mut t = vec![];
        p16(&mut t, 10);
        p16(&mut t, (16 + 4 + 4 + 4 * (nz + 1)) as u16);
        t.extend(vec![0u8; 12]);
        p16(&mut t, 2);
        p16(&mut t, (4 + 4 + 4 * (nz + 1)) as u16);
        p16(&mut t, 256);
        p16(&mut t, (nz + 1) as u16);
        for _ in 0..nz {
            p16(&mut t, 82);
            p16(&mut t, 0);
        }
        p16(&mut t, 96);
        p16(&mut t, 65535);
        let l = 20000usize;
        let mut d = vec![];
        p16(&mut d, 10);
        p16(&mut d, (16 + 4 + 3 + l) as u16);
        d.extend(vec![0u8; 12]);
        p16(&mut d, 256);
        p16(&mut d, (4 + 3 + l) as u16);
        d.push(255);
        p16(&mut d, l as u16);
        d.extend(vec![b'x'; l]);
        two_step.push(("ipfix-60-zero-length-fields-one-20000-byte-record", vec![t, d]));
        // V9: 60 zero-length fields and one 4-byte field, 2000 records
        let mut t = vec![];
        p16(&mut t, 9);
        p16(&mut t, 1);
        t.extend(vec![0u8; 16]);
        p16(&mut t, 0);
        p16(&mut t, (8 + 4 * (nz + 1)) as u16);
        p16(&mut t, 256);
        p16(&mut t, (nz + 1) as u16);
        for _ in 0..nz {
            p16(&mut t, 94);
            p16(&mut t, 0);
        }
        p16(&mut t, 94);
        p16(&mut t, 8000);
        let mut d = vec![];
        p16(&mut d, 9);
        p16(&mut d, 1);
        d.extend(vec![0u8; 16]);
        p16(&mut d, 256);
        p16(&mut d, 8004);
        d.extend(vec![b'y'; 8000]);
        two_step.push(("v9-60-zero-length-fields-one-8000-byte-record", vec![t, d]));
    }
    for (name, bufs) in &two_step {
        if w.oneoff(j) {
            let _ = w.begin_case(crate::worker::ONEOFF + j, name);
            let mut sut = Sut::new(1);
            let mut last = None;
            for b in bufs {
                last = Some(measure(&mut sut, 0, b));
            }
            let c = last.unwrap();
            w.rep.count("announce_cases", 1);
            w.rep.count("calls_measured", 2);
            w.rep.max(&format!("announce.max_single_request.{}", name), c.m.max_single as f64);
            w.rep.shape(&format!("announce {}", name));
            if let Err(d) = judge(&c, &mut stats) {
                w.rep.violation(crate::ctx::sig("C15", &d), &d, sut.replay_json());
            }
        }
        j += 1;
    }
    for (name, buf) in &announce {
        if w.oneoff(j) {
            let _ = w.begin_case(crate::worker::ONEOFF + j, name);
            let mut sut = Sut::new(1);
            let c = measure(&mut sut, 0, buf);
            w.rep.count("announce_cases", 1);
            w.rep.count("calls_measured", 1);
            w.rep.max(&format!("announce.max_single_request.{}", name), c.m.max_single as f64);
            w.rep.shape(&format!("announce {}", name));
            if let Err(d) = judge(&c, &mut stats) {
                w.rep.violation(crate::ctx::sig("C15", &d), &d, sut.replay_json());
            }
        }
        j += 1;
    }
    // ---- listed finding: zero-length-field amplification (dedicated witness, bounded size)
    if w.oneoff(j) {
        let _ = w.begin_case(crate::worker::ONEOFF + j, "zero-length-amplification");
        let ext = crate::gen_host::extremes();
        if let Some((_, bufs)) = ext.iter().find(|e| e.0 == "v9-zero-length-200x2000") {
            let mut sut = Sut::new(1);
            let mut last = None;
            for b in bufs {
                last = Some(measure(&mut sut, 0, b));
            }
            let c = last.unwrap();
            w.rep.count("calls_measured", 2);
            let received = (c.n + c.tmpl_wire) as f64;
            let ratio = c.result_bytes as f64 / received;
            w.rep.max("zero_length_family.result_over_received", ratio);
            if c.result_bytes as f64 > R0 + R1_V9 * received {
                w.rep.finding("C15|zero-length-fields|amplification|model=records-x-zero-length-fields", || sut.replay_json());
            }
        }
    }
    j += 1;
    let _ = j;
    // ---- 1-3. absolute bounds over the hostile/mutated/corpus/conformant stream
    for idx in w.indices() {
        let mut rng = w.begin_case(idx, "history");
        let h = hostile_history(&mut rng, &w.pools, &w.corpus);
        let mut sut = Sut::new(0);
        sut.parsers = make_parsers(&h);
        let mut shape = String::from(h.family);
        for (i, (p, b)) in h.ops.iter().enumerate() {
            h.reconfigure(i, &mut sut);
            let c = match std::panic::catch_unwind(std::panic::AssertUnwindSafe(|| measure(&mut sut, *p, b))) {
                Ok(c) => c,
                Err(_) => {
                    crate::util::take_panic();
                    w.rep.panics_foreign += 1;
                    break;
                }
            };
            w.rep.count("calls_measured", 1);
            w.rep.count("bytes_in", c.n as u64);
            w.rep.count("bytes_requested", c.m.requested as u64);
            w.rep.count("bytes_result", c.result_bytes as u64);
            match judge(&c, &mut stats) {
                Ok(CostVerdict::Held) => w.rep.count("verdict.held", 1),
                Ok(CostVerdict::TailCopies) => {
                    w.rep.count("verdict.held_after_subtracting_tail_copies", 1);
                    let r = sut.replay_json();
                    w.rep.finding("C15|chained-packets|tail-copy-per-packet|model=sum-of-tails", || r);
                }
                Ok(CostVerdict::Tainted) => w.rep.count("verdict.tainted_zero_length_templates", 1),
                Err(d) => {
                    w.rep.violation(crate::ctx::sig("C15", &d), &d, sut.replay_json());
                    break;
                }
            }
            shape.push_str(&format!("|{}:{}:{}", c.npackets.min(9), (c.n as f64).log2() as u32, (c.result_bytes as f64 + 1.0).log2() as u32));
        }
        w.rep.shape(&shape);
        if w.rep.samples.len() < 2 {
            w.rep.sample(json!({"family": h.family, "shape": shape, "replay": sut.replay_json()}));
        }
    }
    for (k, v) in &stats.maxima {
        w.rep.max(&format!("max.{}", k), *v);
    }
    let _ = Ending::Clean;
}

// ---------------------------------------------------------------------------------------------
// M-instr: instruction counts of parse_bytes under callgrind (the CPU-side doubling monitor).
// `nfverif ircount <family>` executes every doubling member k = 16..max of one family; the last
// buffer of each member goes through `nfverif_measured`, the function callgrind is told to zero
// its counters before and dump them after (bin/check reads one dump per member, in call order).
// ---------------------------------------------------------------------------------------------

#[no_mangle]
#[inline(never)]
pub fn nfverif_measured(p: &mut NetflowParser, buf: &[u8]) -> Vec<NetflowPacket> {
    p.parse_bytes(buf)
}

pub fn ircount(args: &[String]) {
    let name = args.first().map(|s| s.as_str()).unwrap_or("");
    let maxk = match FAMILIES.iter().find(|f| f.0 == name) {
        Some(f) => f.1,
        None => {
            eprintln!("unknown family {}", name);
            std::process::exit(2);
        }
    };
    let with_preload = args.iter().any(|a| a == "--preload");
    let mut base = NetflowParser::default();
    if with_preload {
        // smaller than the allocation-side preload: everything here runs under callgrind
        preload(&mut base, PRELOAD / 4);
    }
    let mut k = 16usize;
    while k <= maxk {
        let bufs = family(name, k);
        let mut p = crate::observe::clone_parser(&base);
        for b in &bufs[..bufs.len() - 1] {
            let _ = p.parse_bytes(b);
        }
        let last = &bufs[bufs.len() - 1];
        let res = std::hint::black_box(nfverif_measured(&mut p, std::hint::black_box(last)));
        println!("{{\"family\":\"{}\",\"k\":{},\"n\":{},\"elements\":{},\"units\":{}}}", name, k, last.len(), res.len(), result_units(&res));
        drop(res);
        k *= 2;
    }
}

/// `nfverif families`: the doubling family list as JSON; `nfverif famops <family> <k>`: the raw
/// operations of one member as a replay object.
pub fn families_json() {
    let v: Vec<serde_json::Value> = FAMILIES.iter().map(|f| json!({"family": f.0, "max_k": f.1})).collect();
    println!("{}", serde_json::Value::Array(v));
}

pub fn famops(args: &[String]) {
    let name = args.first().map(|s| s.as_str()).unwrap_or("");
    let k: usize = args.get(1).and_then(|s| s.parse().ok()).unwrap_or(16);
    let ops: Vec<serde_json::Value> = family(name, k).iter().map(|b| json!({"parser": 0, "hex": crate::util::hex(b)})).collect();
    println!("{}", json!({"parsers": [[5, 7, 9, 10]], "ops": ops}));
}
