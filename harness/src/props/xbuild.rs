//! C17 - the crate keeps its contract with parse_unknown_fields disabled (M-xbuild).
//! The same seeded worker runs in the default build and in the feature-off build; each writes a
//! canonical transcript (Debug of results, export bytes, common flows) which the supervisor
//! compares line by line for streams whose templates contain only known fields. For streams with
//! an unknown field the feature-off worker checks, against the abstract stream, that data governed
//! by such a template is not reported as decoded records while everything else is as sent.

use super::hist::{seq_cfg, seq_packet};
use crate::ast::*;
use crate::ctx::{sig, Sut};
use crate::gen_conf::Exporter;
use crate::interp::{ipfix_dt, v9_dt, DT};
use crate::truth::{check_ipfix, check_v9, div, Div, Stats};
use crate::util::fnv_str;
use crate::worker::W;
use netflow_parser::NetflowPacket;
use serde_json::json;
use std::io::Write;

pub const PUF: bool = cfg!(feature = "puf");

fn v9_tmpl_has_unknown(t: &V9Tmpl) -> bool {
    t.fields.iter().any(|f| v9_dt(f.0) == DT::Unknown)
}
fn ix_fields_have_unknown(f: &[IpfixSpec]) -> bool {
    f.iter().any(|s| s.enterprise.is_none() && ipfix_dt(s.type_num) == DT::Unknown)
}

fn pkt_has_unknown_data(p: &Pkt) -> bool {
    match p {
        Pkt::Fixed(_) => false,
        Pkt::V9(v) => v.flowsets.iter().any(|f| matches!(f, V9FlowSet::Data { tmpl, .. } if v9_tmpl_has_unknown(tmpl))),
        Pkt::Ipfix(m) => m.sets.iter().any(|s| matches!(s, IpfixSet::Data { fields, .. } if ix_fields_have_unknown(fields))),
    }
}

/// what the feature-off build must report for this packet
fn expect_nopuf_v9(p: &V9Pkt) -> V9Pkt {
    let mut q = p.clone();
    for f in q.flowsets.iter_mut() {
        if let V9FlowSet::Data { tmpl, records, padding } = f {
            if v9_tmpl_has_unknown(tmpl) {
                // no record is reported; the body is left as padding
                let mut body = vec![];
                for r in records.iter() {
                    for c in r {
                        body.extend_from_slice(c);
                    }
                }
                body.extend_from_slice(padding);
                *records = vec![];
                *padding = body;
            }
        }
    }
    q
}

fn line(idx: u64, call: usize, tag: char, res: &[NetflowPacket]) -> String {
    let dbg = format!("{:?}", res);
    let mut exp = String::new();
    let mut common = String::new();
    for e in res {
        match e {
            NetflowPacket::V5(v) => exp.push_str(&crate::util::hex(&v.to_be_bytes())),
            NetflowPacket::V7(v) => exp.push_str(&crate::util::hex(&v.to_be_bytes())),
            NetflowPacket::V9(v) => exp.push_str(&match v.to_be_bytes() {
                Ok(b) => crate::util::hex(&b),
                Err(_) => "ERR".into(),
            }),
            NetflowPacket::IPFix(v) => exp.push_str(&match v.to_be_bytes() {
                Ok(b) => crate::util::hex(&b),
                Err(_) => "ERR".into(),
            }),
            NetflowPacket::Error(_) => exp.push_str("E"),
        }
        exp.push('|');
        match e.as_netflow_common() {
            Ok(c) => common.push_str(&format!("{} {} {:?}", c.version, c.timestamp, c.flowsets)),
            Err(_) => common.push_str("ERR"),
        }
        common.push('|');
    }
    format!("{} {} {} {:016x} {:016x} {:016x}\n", idx, call, tag, fnv_str(&dbg), fnv_str(&exp), fnv_str(&common))
}

pub fn run(w: &mut W) {
    let mut st = Stats::default();
    let mut out: Option<std::io::BufWriter<std::fs::File>> = w.transcript.as_ref().and_then(|p| std::fs::File::create(p).ok()).map(std::io::BufWriter::new);
    w.rep.extra.insert("build".into(), json!(if PUF { "default features" } else { "--no-default-features" }));
    for idx in w.indices() {
        let mut rng = w.begin_case(idx, "xbuild");
        let mut cfg = seq_cfg(&mut rng);
        cfg.unknown_types = idx % 2 == 1;
        cfg.max_fields = 8;
        let mut ex = Exporter::new();
        let mut sut = Sut::new(1);
        let n = 2 + rng.usize(6);
        let mut seen_unknown = false;
        let mut ok = true;
        let mut tainted = false;
        for call in 0..n {
            if tainted {
                w.rep.count("nopuf.streams_cut_short_model_unreliable", 1);
                break;
            }
            let pkt = seq_packet(&mut rng, &mut ex, &cfg, &w.pools);
            // an unknown field in any cached template makes the rest of the stream feature-dependent
            let tmpl_unknown = ex.v9_t.values().any(v9_tmpl_has_unknown) || ex.ix_t.values().any(|t| ix_fields_have_unknown(&t.fields)) || ex.ix_o.values().any(|t| ix_fields_have_unknown(&t.fields));
            // ... as does one defined (and possibly already replaced) inside this very packet
            let defined_here = match &pkt {
                Pkt::V9(v) => v.flowsets.iter().any(|f| matches!(f, V9FlowSet::Template { templates, .. } if templates.iter().any(v9_tmpl_has_unknown))),
                Pkt::Ipfix(m) => m.sets.iter().any(|s| match s {
                    IpfixSet::Template { records, .. } => records.iter().any(|t| ix_fields_have_unknown(&t.fields)),
                    IpfixSet::OptionsTemplate { records, .. } => records.iter().any(|t| ix_fields_have_unknown(&t.fields)),
                    _ => false,
                }),
                _ => false,
            };
            seen_unknown = seen_unknown || tmpl_unknown || defined_here || pkt_has_unknown_data(&pkt);
            let wire = pkt.wire();
            let res = sut.parse(0, &wire);
            w.rep.count("calls", 1);
            let tag = if seen_unknown { 'U' } else { 'K' };
            w.rep.count(if seen_unknown { "calls_with_unknown_field_in_cache" } else { "calls_known_only" }, 1);
            if let Some(o) = out.as_mut() {
                let _ = o.write_all(line(idx, call, tag, &res).as_bytes());
            }
            // ground truth in both builds
            let verdict: Result<(), Div> = (|| {
                match (&pkt, res.as_slice()) {
                    (Pkt::Fixed(_), [NetflowPacket::V5(_)]) | (Pkt::Fixed(_), [NetflowPacket::V7(_)]) => Ok(()),
                    (Pkt::V9(a), [NetflowPacket::V9(g)]) => {
                        if PUF || !pkt_has_unknown_data(&pkt) {
                            check_v9(a, g, &mut st)
                        } else {
                            w.rep.count("nopuf.v9_packets_with_unknown_field_data", 1);
                            check_v9(&expect_nopuf_v9(a), g, &mut st).map_err(|d| div(&format!("nopuf/{}", d.unit), &d.class, format!("feature off: {}", d.detail)))
                        }
                    }
                    (Pkt::Ipfix(a), [NetflowPacket::IPFix(g)]) => {
                        if PUF || !pkt_has_unknown_data(&pkt) {
                            check_ipfix(a, g, &mut st)
                        } else {
                            w.rep.count("nopuf.ipfix_messages_with_unknown_field_data", 1);
                            // no set governed by an unknown-field template may be reported
                            let bad: Vec<bool> = a.sets.iter().map(|s| matches!(s, IpfixSet::Data { fields, .. } if ix_fields_have_unknown(fields))).collect();
                            let first_bad = bad.iter().position(|b| *b).unwrap();
                            // either the listed stop-at-first-undecodable-set model or every other set
                            let m1 = IpfixMsg { sets: a.sets[..first_bad].to_vec(), ..a.clone() };
                            let m2 = IpfixMsg { sets: a.sets.iter().zip(bad.iter()).filter(|(_, b)| !**b).map(|(s, _)| s.clone()).collect(), ..a.clone() };
                            let mut g1 = g.clone();
                            if g.header.length as usize != a.wire().len() {
                                return Err(div("nopuf/ipfix/header", "value", "length".into()));
                            }
                            g1.header.length = m1.wire().len() as u16;
                            let mut g2 = g.clone();
                            g2.header.length = m2.wire().len() as u16;
                            let mut s1 = Stats::default();
                            if check_ipfix(&m1, &g1, &mut s1).is_ok() || check_ipfix(&m2, &g2, &mut s1).is_ok() {
                                // template sets after the undecodable set were not learned (listed
                                // finding of C05): the exporter model no longer mirrors the cache
                                if a.sets[first_bad..].iter().any(|s| matches!(s, IpfixSet::Template { .. } | IpfixSet::OptionsTemplate { .. })) {
                                    tainted = true;
                                }
                                Ok(())
                            } else {
                                Err(div("nopuf/ipfix/sets", "unknown-field-data", format!("feature off: message with {} sets, set {} governed by a template with an unknown field: reported sets {:?}", a.sets.len(), first_bad, g.flowsets.iter().map(|f| f.header.header_id).collect::<Vec<_>>())))
                            }
                        }
                    }
                    (_, r) => Err(div("xbuild/decode", "elements", format!("conformant packet returned {:?}", r.iter().map(crate::observe::kind).collect::<Vec<_>>()))),
                }
            })();
            if let Err(d) = verdict {
                w.rep.violation(sig("C17", &d), &d, sut.replay_json());
                ok = false;
                break;
            }
        }
        if ok {
            w.rep.shape(&format!("{}|{}|{}", PUF, seen_unknown, fnv_str(&format!("{:?}", sut.ops.iter().map(|o| o.1.len()).collect::<Vec<_>>()))));
            if w.rep.samples.len() < 2 {
                w.rep.sample(json!({"build": if PUF { "default" } else { "no-default-features" }, "unknown_fields": seen_unknown, "replay": sut.replay_json()}));
            }
        }
        st.findings.clear();
    }
    if let Some(mut o) = out {
        let _ = o.flush();
    }
    w.rep.count("cells", st.cells_total);
}
