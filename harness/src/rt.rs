//! M-rt: re-export round trip. Builds, from the AST, the bytes `to_be_bytes` must produce:
//! the original bytes, except that cells of a *listed* lossy class are replaced by what the
//! listed defect model predicts. Anything else is a violation.

use crate::ast::*;
use crate::interp::{export_model, ipfix_dt, v9_dt, DT};
use crate::truth::{div, Div};
use std::collections::BTreeSet;

pub struct Model {
    /// None = the model predicts an export error
    pub bytes: Option<Vec<u8>>,
    /// lossy classes whose modelled bytes actually differ from the original in this packet
    pub classes: BTreeSet<&'static str>,
    /// (start offset in `bytes`, unit label) for attribution
    pub units: Vec<(usize, String)>,
}

fn p16(o: &mut Vec<u8>, v: u16) {
    o.extend_from_slice(&v.to_be_bytes());
}

fn cell(o: &mut Vec<u8>, classes: &mut BTreeSet<&'static str>, failed: &mut bool, dt: DT, b: &[u8]) {
    let (class, m) = export_model(dt, b);
    match m {
        Some(m) => {
            if let Some(c) = class {
                if m != b {
                    classes.insert(c);
                }
            }
            o.extend_from_slice(&m);
        }
        None => {
            classes.insert(class.unwrap_or("export-error"));
            *failed = true;
        }
    }
}

pub fn model_v9(p: &V9Pkt) -> Model {
    let mut o = p.wire()[..20].to_vec();
    let mut classes = BTreeSet::new();
    let mut units = vec![(0usize, "v9/header".to_string())];
    let mut failed = false;
    for (fi, f) in p.flowsets.iter().enumerate() {
        let w = f.wire();
        units.push((o.len(), format!("v9/flowset[{}]/header", fi)));
        o.extend_from_slice(&w[..4]);
        match f {
            V9FlowSet::Data { tmpl, records, padding } => {
                for (ri, r) in records.iter().enumerate() {
                    for (ci, b) in r.iter().enumerate() {
                        let dt = v9_dt(tmpl.fields[ci].0);
                        units.push((o.len(), format!("v9/flowset[{}]/data/record[{}]/cell[{}]|{}|w{}", fi, ri, ci, dt.name(), b.len())));
                        cell(&mut o, &mut classes, &mut failed, dt, b);
                    }
                }
                units.push((o.len(), format!("v9/flowset[{}]/data/padding", fi)));
                o.extend_from_slice(padding);
            }
            other => {
                let kind = match other {
                    V9FlowSet::Template { .. } => "template",
                    V9FlowSet::OptionsTemplate { .. } => "options-template",
                    V9FlowSet::OptionsData { .. } => "options-data",
                    _ => "other",
                };
                units.push((o.len(), format!("v9/flowset[{}]/{}", fi, kind)));
                o.extend_from_slice(&w[4..]);
            }
        }
    }
    Model { bytes: if failed { None } else { Some(o) }, classes, units }
}

pub fn model_ipfix(m: &IpfixMsg) -> Model {
    let mut o = m.wire()[..16].to_vec();
    let mut classes = BTreeSet::new();
    let mut units = vec![(0usize, "ipfix/header".to_string())];
    let mut failed = false;
    for (si, s) in m.sets.iter().enumerate() {
        let w = s.wire();
        units.push((o.len(), format!("ipfix/set[{}]/header", si)));
        o.extend_from_slice(&w[..4]);
        match s {
            IpfixSet::Data { fields, records, padding, options, .. } => {
                let k = if *options { "options-data" } else { "data" };
                for (ri, r) in records.iter().enumerate() {
                    for (ci, c) in r.iter().enumerate() {
                        let sp = &fields[ci];
                        let dt = if sp.enterprise.is_some() { DT::Bytes } else { ipfix_dt(sp.type_num) };
                        units.push((o.len(), format!("ipfix/set[{}]/{}/record[{}]/cell[{}]|{}|w{}{}", si, k, ri, ci, dt.name(), c.bytes.len().min(65), if c.varlen { "|varlen" } else { "" })));
                        if c.varlen {
                            // listed finding: the length prefix is consumed at decode and not retained
                            classes.insert("varlen-prefix");
                        }
                        cell(&mut o, &mut classes, &mut failed, dt, &c.bytes);
                    }
                }
                units.push((o.len(), format!("ipfix/set[{}]/{}/padding", si, k)));
                o.extend_from_slice(padding);
            }
            other => {
                let kind = match other {
                    IpfixSet::Template { .. } => "template",
                    IpfixSet::OptionsTemplate { .. } => "options-template",
                    _ => "other",
                };
                units.push((o.len(), format!("ipfix/set[{}]/{}", si, kind)));
                o.extend_from_slice(&w[4..]);
            }
        }
    }
    Model { bytes: if failed { None } else { Some(o) }, classes, units }
}

pub enum RtVerdict {
    Exact,
    /// equals the model; the listed classes explain the whole difference
    Modelled(Vec<&'static str>),
}

/// `got`: result of to_be_bytes (Err text if it failed); `orig`: consumed input slice.
pub fn judge(model: &Model, orig: &[u8], got: &Result<Vec<u8>, String>) -> Result<RtVerdict, Div> {
    match got {
        Ok(g) => {
            if g.as_slice() == orig {
                return Ok(RtVerdict::Exact);
            }
            if let Some(m) = &model.bytes {
                if g == m {
                    return Ok(RtVerdict::Modelled(model.classes.iter().cloned().collect()));
                }
                // attribute the first difference from the model
                let o = g.iter().zip(m.iter()).position(|(a, b)| a != b).unwrap_or(g.len().min(m.len()));
                let unit = model.units.iter().rev().find(|(s, _)| *s <= o).map(|x| x.1.clone()).unwrap_or_default();
                let (u, c) = match unit.split_once('|') {
                    Some((u, c)) => (u.to_string(), format!("bytes|{}", c)),
                    None => (unit.clone(), "bytes".to_string()),
                };
                return Err(div(&format!("{}/export", u), &c, format!("to_be_bytes differs at offset {} (got {} bytes, input {} bytes, model {} bytes); got ..{}.. want ..{}..", o, g.len(), orig.len(), m.len(), crate::util::hex(&g[o.saturating_sub(4)..(o + 8).min(g.len())]), crate::util::hex(&m[o.saturating_sub(4)..(o + 8).min(m.len())]))));
            }
            Err(div("export", "unexpected-success", format!("to_be_bytes returned {} bytes where the listed model predicts an error and the bytes differ from the input", g.len())))
        }
        Err(e) => {
            if model.bytes.is_none() {
                Ok(RtVerdict::Modelled(model.classes.iter().cloned().collect()))
            } else {
                Err(div("export", "failed", format!("to_be_bytes failed: {}", e)))
            }
        }
    }
}
