//! Fingerprint twins: pairs of different, well-formed template definitions of one id and one length
//! that collide under a cheap non-cryptographic fingerprint of the bytes a parser would plausibly
//! fingerprint (the body of the template flowset/set, or the flowset/set from its own header on).
//!
//! A memo "keyed on a hash of the bytes" that never compares the bytes is invisible to random and
//! mutated traffic (2^-32 per pair) but a birthday search over ~10^5 candidates finds a pair for any
//! 32-bit fingerprint in milliseconds. The monitor cannot know which fingerprint a future change
//! uses, so the table covers the ones such code is usually written with. 64-bit fingerprints (and
//! seeded ones) are out of reach: see DESIGN.md section 11.

use crate::rng::Rng;
use std::hash::Hasher;
use std::sync::OnceLock;

#[derive(Clone, Debug)]
pub struct Twin {
    pub hash: &'static str,
    pub range: &'static str,
    pub id: u16,
    pub a: Vec<(u16, u16)>,
    pub b: Vec<(u16, u16)>,
}

fn fnv1a32(b: &[u8]) -> u32 {
    b.iter().fold(0x811c9dc5u32, |h, &c| (h ^ c as u32).wrapping_mul(0x0100_0193))
}
fn fnv1_32(b: &[u8]) -> u32 {
    b.iter().fold(0x811c9dc5u32, |h, &c| h.wrapping_mul(0x0100_0193) ^ c as u32)
}
fn fnv1a64(b: &[u8]) -> u64 {
    b.iter().fold(0xcbf29ce484222325u64, |h, &c| (h ^ c as u64).wrapping_mul(0x100_0000_01b3))
}
fn crc32_poly(b: &[u8], poly: u32) -> u32 {
    let mut c = !0u32;
    for &x in b {
        c ^= x as u32;
        for _ in 0..8 {
            c = if c & 1 != 0 { (c >> 1) ^ poly } else { c >> 1 };
        }
    }
    !c
}
fn adler32(b: &[u8]) -> u32 {
    let (mut a, mut s) = (1u32, 0u32);
    for &x in b {
        a = (a + x as u32) % 65521;
        s = (s + a) % 65521;
    }
    (s << 16) | a
}
fn fletcher32(b: &[u8]) -> u32 {
    let (mut a, mut s) = (0u32, 0u32);
    for w in b.chunks(2) {
        let v = if w.len() == 2 { u16::from_be_bytes([w[0], w[1]]) as u32 } else { (w[0] as u32) << 8 };
        a = (a + v) % 65535;
        s = (s + a) % 65535;
    }
    (s << 16) | a
}
fn djb2(b: &[u8]) -> u32 {
    b.iter().fold(5381u32, |h, &c| h.wrapping_mul(33).wrapping_add(c as u32))
}
fn djb2x(b: &[u8]) -> u32 {
    b.iter().fold(5381u32, |h, &c| h.wrapping_mul(33) ^ c as u32)
}
fn sdbm(b: &[u8]) -> u32 {
    b.iter().fold(0u32, |h, &c| (c as u32).wrapping_add(h << 6).wrapping_add(h << 16).wrapping_sub(h))
}
fn java31(b: &[u8]) -> u32 {
    b.iter().fold(0u32, |h, &c| h.wrapping_mul(31).wrapping_add(c as u32))
}
fn oaat(b: &[u8]) -> u32 {
    let mut h = 0u32;
    for &c in b {
        h = h.wrapping_add(c as u32);
        h = h.wrapping_add(h << 10);
        h ^= h >> 6;
    }
    h = h.wrapping_add(h << 3);
    h ^= h >> 11;
    h.wrapping_add(h << 15)
}
fn murmur3_32(b: &[u8]) -> u32 {
    let (c1, c2) = (0xcc9e2d51u32, 0x1b873593u32);
    let mut h = 0u32;
    let mut it = b.chunks_exact(4);
    for w in &mut it {
        let mut k = u32::from_le_bytes([w[0], w[1], w[2], w[3]]);
        k = k.wrapping_mul(c1).rotate_left(15).wrapping_mul(c2);
        h = (h ^ k).rotate_left(13).wrapping_mul(5).wrapping_add(0xe6546b64);
    }
    let r = it.remainder();
    if !r.is_empty() {
        let mut k = 0u32;
        for (i, &x) in r.iter().enumerate() {
            k |= (x as u32) << (8 * i);
        }
        k = k.wrapping_mul(c1).rotate_left(15).wrapping_mul(c2);
        h ^= k;
    }
    h ^= b.len() as u32;
    h ^= h >> 16;
    h = h.wrapping_mul(0x85ebca6b);
    h ^= h >> 13;
    h = h.wrapping_mul(0xc2b2ae35);
    h ^ (h >> 16)
}
fn lanes32(b: &[u8], f: fn(u32, u32) -> u32) -> u32 {
    b.chunks(4).fold(0u32, |h, w| {
        let mut x = [0u8; 4];
        x[..w.len()].copy_from_slice(w);
        f(h, u32::from_be_bytes(x))
    })
}
fn sum16(b: &[u8]) -> u32 {
    b.chunks(2).fold(0u32, |h, w| (h + if w.len() == 2 { u16::from_be_bytes([w[0], w[1]]) as u32 } else { (w[0] as u32) << 8 }) % 65535)
}
fn sip_write(b: &[u8]) -> u64 {
    #[allow(deprecated)]
    let mut h = std::hash::SipHasher::new();
    h.write(b);
    h.finish()
}
fn sip_hash_slice(b: &[u8]) -> u64 {
    use std::hash::Hash;
    let mut h = std::collections::hash_map::DefaultHasher::new();
    b.hash(&mut h);
    h.finish()
}

type H = (&'static str, fn(&[u8]) -> u32);
const HASHES: &[H] = &[
    ("fnv1a-32", fnv1a32),
    ("fnv1-32", fnv1_32),
    ("fnv1a-64-low32", |b| fnv1a64(b) as u32),
    ("fnv1a-64-folded", |b| {
        let h = fnv1a64(b);
        (h ^ (h >> 32)) as u32
    }),
    ("crc32-ieee", |b| crc32_poly(b, 0xedb88320)),
    ("crc32c", |b| crc32_poly(b, 0x82f63b78)),
    ("adler32", adler32),
    ("fletcher32", fletcher32),
    ("djb2", djb2),
    ("djb2-xor", djb2x),
    ("sdbm", sdbm),
    ("java-31", java31),
    ("jenkins-one-at-a-time", oaat),
    ("murmur3-32-seed0", murmur3_32),
    ("xor-of-32-bit-lanes", |b| lanes32(b, |h, x| h ^ x)),
    ("sum-of-32-bit-lanes", |b| lanes32(b, |h, x| h.wrapping_add(x))),
    ("rotating-xor-of-32-bit-lanes", |b| lanes32(b, |h, x| h.rotate_left(5) ^ x)),
    ("internet-checksum-16", sum16),
    ("siphash-zero-key-write-low32", |b| sip_write(b) as u32),
    ("defaulthasher-slice-low32", |b| sip_hash_slice(b) as u32),
];

pub fn hash_names() -> Vec<&'static str> {
    HASHES.iter().map(|h| h.0).collect()
}

fn body(id: u16, fields: &[(u16, u16)]) -> Vec<u8> {
    let mut b = Vec::with_capacity(4 + 4 * fields.len());
    b.extend(id.to_be_bytes());
    b.extend((fields.len() as u16).to_be_bytes());
    for f in fields {
        b.extend(f.0.to_be_bytes());
        b.extend(f.1.to_be_bytes());
    }
    b
}

/// `pool`: the (type, length) pairs a definition may use (no enterprise bit, every pair decodable
/// and re-exportable on its own); `set_id`: 0 for V9, 2 for IPFIX.
fn search(seed: u64, pool: &[(u16, u16)], set_id: u16, per_hash: usize) -> Vec<Twin> {
    let mut rng = Rng::new(seed);
    let mut out = vec![];
    for &(id, nf, n) in &[(256u16, 5usize, 100_000usize), (1024, 8, 100_000), (300, 3, 100_000)] {
        let cands: Vec<Vec<(u16, u16)>> = (0..n).map(|_| (0..nf).map(|_| *rng.pick(pool)).collect()).collect();
        // the set from its own header on; the body is the same bytes without the first four
        let full: Vec<Vec<u8>> = cands
            .iter()
            .map(|c| {
                let b = body(id, c);
                let mut x = Vec::with_capacity(4 + b.len());
                x.extend(set_id.to_be_bytes());
                x.extend(((4 + b.len()) as u16).to_be_bytes());
                x.extend(b);
                x
            })
            .collect();
        for (range, skip) in [("body", 4usize), ("set-from-its-header", 0)] {
            for (name, f) in HASHES {
                let mut hs: Vec<(u32, u32)> = full.iter().enumerate().map(|(i, x)| (f(&x[skip..]), i as u32)).collect();
                hs.sort_unstable();
                let mut found = 0;
                for p in hs.windows(2) {
                    let (i, j) = (p[0].1 as usize, p[1].1 as usize);
                    if p[0].0 == p[1].0 && cands[i] != cands[j] {
                        out.push(Twin { hash: name, range, id, a: cands[i].clone(), b: cands[j].clone() });
                        found += 1;
                        if found >= per_hash {
                            break;
                        }
                    }
                }
            }
        }
    }
    out
}

/// number-valued and address-valued V9 fields at their natural widths: every value round-trips
const V9_POOL: &[(u16, u16)] = &[
    (1, 4), (2, 4), (3, 4), (4, 1), (5, 1), (6, 1), (7, 2), (8, 4), (9, 1), (10, 2), (11, 2), (12, 4), (13, 1), (14, 2), (15, 4), (16, 2), (17, 2),
    (18, 4), (19, 4), (20, 4), (23, 4), (24, 4), (25, 2), (26, 2), (27, 16), (28, 16), (29, 1), (30, 1), (31, 4), (32, 2), (33, 1), (34, 4), (35, 1),
    (36, 2), (37, 2), (38, 1), (39, 1), (40, 4), (41, 4), (42, 4), (46, 1), (47, 4), (48, 1), (55, 1), (58, 2), (59, 2), (60, 1), (61, 1), (62, 16),
    (63, 16), (64, 4), (1, 8), (2, 8), (10, 4), (14, 4), (16, 4), (17, 4),
];
const IPFIX_POOL: &[(u16, u16)] = &[
    (1, 8), (2, 8), (1, 4), (2, 4), (4, 1), (5, 1), (6, 2), (7, 2), (8, 4), (9, 1), (10, 4), (11, 2), (12, 4), (13, 1), (14, 4), (15, 4), (16, 4), (17, 4),
    (27, 16), (28, 16), (29, 1), (30, 1), (31, 4), (32, 2), (33, 1), (40, 8), (41, 8), (42, 8), (58, 2), (59, 2), (60, 1), (61, 1), (62, 16), (63, 16),
    (85, 8), (86, 8), (136, 1), (148, 8), (176, 1), (177, 1), (178, 1), (179, 1), (180, 2), (181, 2), (182, 2), (183, 2), (184, 4), (185, 4), (186, 2),
    (189, 1), (192, 1), (1, 2), (2, 2), (85, 4), (86, 4),
];

/// (empty under Miri, where the search would take hours: the generators then send no twins)
pub fn v9() -> &'static [Twin] {
    static T: OnceLock<Vec<Twin>> = OnceLock::new();
    T.get_or_init(|| if cfg!(miri) { vec![] } else { search(0x7717_0009, V9_POOL, 0, 3) })
}

pub fn ipfix() -> &'static [Twin] {
    static T: OnceLock<Vec<Twin>> = OnceLock::new();
    T.get_or_init(|| if cfg!(miri) { vec![] } else { search(0x7717_000a, IPFIX_POOL, 2, 3) })
}

pub fn selftest() -> Result<String, String> {
    let t0 = std::time::Instant::now();
    let mut lines = vec![];
    for (what, tw, set_id) in [("v9", v9(), 0u16), ("ipfix", ipfix(), 2u16)] {
        let mut per: std::collections::BTreeMap<&str, usize> = Default::default();
        for t in tw {
            *per.entry(t.hash).or_default() += 1;
            let (a, b) = (body(t.id, &t.a), body(t.id, &t.b));
            if a == b || a.len() != b.len() {
                return Err(format!("{} twin of {} is not a pair of different equal-length bodies", what, t.hash));
            }
            let f = HASHES.iter().find(|h| h.0 == t.hash).unwrap().1;
            let (ha, hb) = if t.range == "body" {
                (f(&a), f(&b))
            } else {
                let mut head = vec![];
                head.extend(set_id.to_be_bytes());
                head.extend(((4 + a.len()) as u16).to_be_bytes());
                let (mut x, mut y) = (head.clone(), head.clone());
                x.extend(&a);
                y.extend(&b);
                (f(&x), f(&y))
            };
            if ha != hb {
                return Err(format!("{} twin of {} does not collide", what, t.hash));
            }
        }
        let missing: Vec<&str> = HASHES.iter().map(|h| h.0).filter(|n| !per.contains_key(n)).collect();
        if !missing.is_empty() {
            return Err(format!("{}: no twin found for {:?}", what, missing));
        }
        lines.push(format!("{}: {} twins over {} fingerprints", what, tw.len(), per.len()));
    }
    // known-answer checks of the fingerprints themselves
    if fnv1a32(b"a") != 0xe40c292c || crc32_poly(b"123456789", 0xedb88320) != 0xcbf43926 || crc32_poly(b"123456789", 0x82f63b78) != 0xe3069283 || adler32(b"Wikipedia") != 0x11e60398 || murmur3_32(b"test") != 0xba6bd213 || djb2(b"a") != 177670 {
        return Err("a fingerprint function fails its known-answer test".into());
    }
    Ok(format!("{} ({} ms)", lines.join("; "), t0.elapsed().as_millis()))
}
