#[doc(hidden)]
pub mod __private229 {
    #[doc(hidden)]
    pub use crate::private::*;
}
