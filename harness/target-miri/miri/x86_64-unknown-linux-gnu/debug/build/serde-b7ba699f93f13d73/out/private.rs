#[doc(hidden)]
pub mod __private229 {
    #[doc(hidden)]
    pub use crate::private::*;
}
use serde_core::__private229 as serde_core_private;
